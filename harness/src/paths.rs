//! API paths: every public entry point that must refine one spec action.  The struct-level wrappers are what the
//! replay drives first; the functions here reach the same action through the public trait-level API
//! (BlsSignatureBasic / BlsSignatureMessageAugmentation / BlsSignaturePop / BlsSignatureCore / BlsMultiKey /
//! BlsMultiSignature), so a divergence between two paths that are supposed to be equivalent is a failure of the
//! vector, judged against the same prediction.
use blsful::inner_types::*;
use blsful::*;

type Sc<C> = <<C as Pairing>::PublicKey as Group>::Scalar;
type PkP<C> = <C as Pairing>::PublicKey;
type SigP<C> = <C as Pairing>::Signature;

pub fn sign<C: BlsSignatureImpl>(scheme: &str, sk: &Sc<C>, msg: &[u8]) -> BlsResult<SigP<C>> {
    match scheme {
        "Basic" => <C as BlsSignatureBasic>::sign(sk, msg),
        "Aug" => <C as BlsSignatureMessageAugmentation>::sign(sk, msg),
        _ => <C as BlsSignaturePop>::sign(sk, msg),
    }
}

pub fn verify<C: BlsSignatureImpl>(scheme: &str, pk: PkP<C>, sig: SigP<C>, msg: &[u8]) -> BlsResult<()> {
    match scheme {
        "Basic" => <C as BlsSignatureBasic>::verify(pk, sig, msg),
        "Aug" => <C as BlsSignatureMessageAugmentation>::verify(pk, sig, msg),
        _ => <C as BlsSignaturePop>::verify(pk, sig, msg),
    }
}

pub fn dst<C: BlsSignatureImpl>(scheme: &str) -> &'static [u8] {
    match scheme {
        "Basic" => <C as BlsSignatureBasic>::DST,
        "Aug" => <C as BlsSignatureMessageAugmentation>::DST,
        _ => <C as BlsSignaturePop>::SIG_DST,
    }
}

pub fn aggregate_verify<C: BlsSignatureImpl>(scheme: &str, pairs: &[(PkP<C>, Vec<u8>)], sig: SigP<C>) -> BlsResult<()> {
    // the functions take any iterator: once an exactly sized one, once a lazy one whose size_hint says nothing
    let exact = {
        let it = pairs.iter().map(|(p, m)| (*p, m.as_slice()));
        match scheme {
            "Basic" => <C as BlsSignatureBasic>::aggregate_verify(it, sig),
            "Aug" => <C as BlsSignatureMessageAugmentation>::aggregate_verify(it, sig),
            _ => <C as BlsSignaturePop>::aggregate_verify(it, sig),
        }
    };
    let lazy = {
        let it = pairs.iter().filter(|_| true).map(|(p, m)| (*p, m.clone()));
        match scheme {
            "Basic" => <C as BlsSignatureBasic>::aggregate_verify(it, sig),
            "Aug" => <C as BlsSignatureMessageAugmentation>::aggregate_verify(it, sig),
            _ => <C as BlsSignaturePop>::aggregate_verify(it, sig),
        }
    };
    if exact.is_ok() != lazy.is_ok() {
        // report as the verdict that differs from the other form: the caller compares with the prediction
        return if exact.is_ok() { lazy } else { Err(BlsError::InvalidInputs("aggregate_verify: an exactly sized iterator is refused where a lazy iterator over the same pairs is accepted".into())) };
    }
    exact
}

/// multi-signature verification: the PoP scheme has its own entry point, the others go through the
/// accumulated key of BlsMultiKey and the scheme's verify
pub fn multi_verify<C: BlsSignatureImpl>(scheme: &str, pks: &[PkP<C>], sig: SigP<C>, msg: &[u8]) -> BlsResult<()> {
    match scheme {
        "Pop" => {
            let a = <C as BlsSignaturePop>::multi_sig_verify(pks.iter().copied(), sig, msg);
            let b = <C as BlsSignaturePop>::multi_sig_verify(pks.iter().filter(|_| true).copied(), sig, msg.to_vec());
            if a.is_ok() != b.is_ok() {
                return if a.is_ok() { b } else { Err(BlsError::InvalidInputs("multi_sig_verify: exact and lazy iterators over the same keys disagree".into())) };
            }
            a
        }
        s => verify::<C>(s, <C as BlsMultiKey>::from_public_keys(pks.iter().copied()), sig, msg),
    }
}

/// the three public ways of adding public keys / signatures up
pub fn key_sums<C: BlsSignatureImpl>(pks: &[PkP<C>]) -> [PkP<C>; 2] {
    let lazy = <C as BlsMultiKey>::from_public_keys(pks.iter().filter(|_| true).copied());
    let exact = <C as BlsMultiKey>::from_public_keys(pks.iter().copied());
    [if lazy == exact { exact } else { <PkP<C> as Group>::identity() - exact }, <C as BlsSignatureCore>::aggregate_public_keys(pks.iter().filter(|_| true).copied())]
}
pub fn sig_sums<C: BlsSignatureImpl>(sigs: &[SigP<C>]) -> [SigP<C>; 2] {
    [<C as BlsMultiSignature>::from_signatures(sigs.iter().filter(|_| true).copied()), <C as BlsSignatureCore>::aggregate_signatures(sigs.iter().copied())]
}

pub fn class<T>(r: &BlsResult<T>) -> (&'static str, &'static str) {
    match r {
        Ok(_) => ("Ok", ""),
        Err(e) => ("Err", crate::signet::err_variant(e)),
    }
}

/// every entry point the replay drives; spec/Api.tla may name only these (checked at start-up: a table that names
/// an entry point the harness does not drive is a tool error, not a pass)
pub const DRIVEN: &[&str] = &[
    "AggregateSignature::from_signatures",
    "AggregateSignature::verify",
    "BlsElGamal::decrypt",
    "BlsElGamal::seal_scalar",
    "BlsElGamal::seal_scalar_with_proof",
    "BlsElGamal::verify_and_decrypt",
    "BlsElGamal::verify_proof",
    "BlsMultiKey::from_public_keys",
    "BlsMultiSignature::from_signatures",
    "BlsSignCrypt::unseal",
    "BlsSignCrypt::valid",
    "BlsSignCrypt::verify_share",
    "BlsSignature::proof_challenge_from_hash",
    "BlsSignature::random_proof_challenge",
    "BlsSignature::random_secret_key",
    "BlsSignature::secret_key_from_hash",
    "BlsSignatureBasic::aggregate_verify",
    "BlsSignatureBasic::partial_sign",
    "BlsSignatureBasic::partial_verify",
    "BlsSignatureBasic::sign",
    "BlsSignatureBasic::verify",
    "BlsSignatureCore::aggregate_public_keys",
    "BlsSignatureCore::aggregate_signatures",
    "BlsSignatureCore::core_combine_public_key_shares",
    "BlsSignatureCore::core_combine_signature_shares",
    "BlsSignatureCore::core_sign",
    "BlsSignatureCore::public_key",
    "BlsSignatureMessageAugmentation::aggregate_verify",
    "BlsSignatureMessageAugmentation::sign",
    "BlsSignatureMessageAugmentation::verify",
    "BlsSignaturePop::aggregate_verify",
    "BlsSignaturePop::multi_sig_verify",
    "BlsSignaturePop::partial_sign",
    "BlsSignaturePop::partial_verify",
    "BlsSignaturePop::pop_prove",
    "BlsSignaturePop::pop_verify",
    "BlsSignaturePop::sign",
    "BlsSignaturePop::verify",
    "BlsSignatureProof::verify",
    "BlsSignatureProof::verify_timestamp_proof",
    "BlsTimeCrypt::unseal",
    "ElGamalCiphertext::add(6 forms)",
    "ElGamalCiphertext::decrypt",
    "ElGamalProof::verify",
    "ElGamalProof::verify_and_decrypt",
    "MultiPublicKey::from_public_keys",
    "MultiSignature::from_signatures",
    "MultiSignature::verify",
    "ProofCommitment::finalize",
    "ProofCommitment::generate",
    "ProofCommitmentChallenge::from_hash",
    "ProofCommitmentChallenge::random",
    "ProofOfKnowledge::verify",
    "ProofOfKnowledgeTimestamp::generate",
    "ProofOfKnowledgeTimestamp::verify",
    "ProofOfPossession::verify",
    "PublicKey::from_shares",
    "PublicKeyShare::verify",
    "SecretKey::combine",
    "SecretKey::from_hash",
    "SecretKey::proof_of_possession",
    "SecretKey::public_key",
    "SecretKey::random",
    "SecretKey::sign",
    "SecretKeyEnum::from_hash",
    "SecretKeyShare::sign",
    "SignCryptCiphertext::decrypt",
    "SignCryptCiphertext::decrypt_with_shares",
    "SignCryptCiphertext::is_valid",
    "SignCryptDecryptionKey::decrypt",
    "SignCryptDecryptionKey::from_shares",
    "SignDecryptionShare::verify",
    "Signature::from_shares",
    "Signature::verify",
    "SignatureShare::verify",
    "TimeCryptCiphertext::decrypt",
    "TryFrom<&Vec<u8>>",
    "TryFrom<&[u8]>",
    "TryFrom<Box<[u8]>>",
    "TryFrom<Vec<u8>>",
    "Vec<u8>::from(&T)",
    "Vec<u8>::from(T)",
    "[u8; 32]::from(&SecretKey)",
    "[u8; 32]::from(SecretKey)",
    "from_be_bytes",
    "from_le_bytes",
    "serde_bare::from_reader",
    "serde_bare::from_slice",
    "serde_json::from_reader",
    "serde_json::from_slice",
    "serde_json::from_str",
    "serde_json::from_value",
    "serde_json::to_string",
    "serde_json::to_string_pretty",
    "serde_json::to_value",
    "serde_json::to_vec",
    "to_be_bytes",
    "to_le_bytes",
];

pub fn api_check(tables: &crate::refeval::Tables) -> Result<usize, String> {
    let api = tables.0.get("api").and_then(|a| a.as_object()).ok_or("tables carry no api map (spec/Api.tla)")?;
    let mut n = 0;
    for (action, eps) in api {
        for e in eps.as_array().ok_or("api entry is not a set")? {
            let name = e.as_str().ok_or("entry point name")?;
            if !DRIVEN.contains(&name) {
                return Err(format!("spec/Api.tla lists entry point {name} for action {action}; the harness does not drive it"));
            }
            n += 1;
        }
    }
    Ok(n)
}
