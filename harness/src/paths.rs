//! API paths: every public entry point that must refine one spec action.  The struct-level wrappers are what the
//! replay drives first; the functions here reach the same action through the public trait-level API
//! (BlsSignatureBasic / BlsSignatureMessageAugmentation / BlsSignaturePop / BlsSignatureCore / BlsMultiKey /
//! BlsMultiSignature), so a divergence between two paths that are supposed to be equivalent is a failure of the
//! vector, judged against the same prediction.
use blsful::inner_types::*;
use blsful::*;

type Sc<C> = <<C as Pairing>::PublicKey as Group>::Scalar;
type PkP<C> = <C as Pairing>::PublicKey;
type SigP<C> = <C as Pairing>::Signature;

pub fn sign<C: BlsSignatureImpl>(scheme: &str, sk: &Sc<C>, msg: &[u8]) -> BlsResult<SigP<C>> {
    match scheme {
        "Basic" => <C as BlsSignatureBasic>::sign(sk, msg),
        "Aug" => <C as BlsSignatureMessageAugmentation>::sign(sk, msg),
        _ => <C as BlsSignaturePop>::sign(sk, msg),
    }
}

pub fn verify<C: BlsSignatureImpl>(scheme: &str, pk: PkP<C>, sig: SigP<C>, msg: &[u8]) -> BlsResult<()> {
    match scheme {
        "Basic" => <C as BlsSignatureBasic>::verify(pk, sig, msg),
        "Aug" => <C as BlsSignatureMessageAugmentation>::verify(pk, sig, msg),
        _ => <C as BlsSignaturePop>::verify(pk, sig, msg),
    }
}

pub fn dst<C: BlsSignatureImpl>(scheme: &str) -> &'static [u8] {
    match scheme {
        "Basic" => <C as BlsSignatureBasic>::DST,
        "Aug" => <C as BlsSignatureMessageAugmentation>::DST,
        _ => <C as BlsSignaturePop>::SIG_DST,
    }
}

pub fn aggregate_verify<C: BlsSignatureImpl>(scheme: &str, pairs: &[(PkP<C>, Vec<u8>)], sig: SigP<C>) -> BlsResult<()> {
    let it = pairs.iter().map(|(p, m)| (*p, m.as_slice()));
    match scheme {
        "Basic" => <C as BlsSignatureBasic>::aggregate_verify(it, sig),
        "Aug" => <C as BlsSignatureMessageAugmentation>::aggregate_verify(it, sig),
        _ => <C as BlsSignaturePop>::aggregate_verify(it, sig),
    }
}

/// multi-signature verification: the PoP scheme has its own entry point, the others go through the
/// accumulated key of BlsMultiKey and the scheme's verify
pub fn multi_verify<C: BlsSignatureImpl>(scheme: &str, pks: &[PkP<C>], sig: SigP<C>, msg: &[u8]) -> BlsResult<()> {
    match scheme {
        "Pop" => <C as BlsSignaturePop>::multi_sig_verify(pks.iter().copied(), sig, msg),
        s => verify::<C>(s, <C as BlsMultiKey>::from_public_keys(pks.iter().copied()), sig, msg),
    }
}

/// the three public ways of adding public keys / signatures up
pub fn key_sums<C: BlsSignatureImpl>(pks: &[PkP<C>]) -> [PkP<C>; 2] {
    [<C as BlsMultiKey>::from_public_keys(pks.iter().copied()), <C as BlsSignatureCore>::aggregate_public_keys(pks.iter().copied())]
}
pub fn sig_sums<C: BlsSignatureImpl>(sigs: &[SigP<C>]) -> [SigP<C>; 2] {
    [<C as BlsMultiSignature>::from_signatures(sigs.iter().copied()), <C as BlsSignatureCore>::aggregate_signatures(sigs.iter().copied())]
}

pub fn class<T>(r: &BlsResult<T>) -> (&'static str, &'static str) {
    match r {
        Ok(_) => ("Ok", ""),
        Err(e) => ("Err", crate::signet::err_variant(e)),
    }
}
