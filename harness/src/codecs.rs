//! Replay of Codec vectors (spec/Codec.tla): every exported data type through byte conversions,
//! serde_bare and serde_json, with structure-aware mutations placed by the field layout the
//! specification exports, and the consumers of whatever decodes.
use crate::conc::*;
use crate::refeval::*;
use crate::signet::*;
use blsful::inner_types::{Field, Group};
use blsful::*;
use serde::de::DeserializeOwned;
use serde::Serialize;
use serde_json::{json, Value};
use std::fmt::Debug;
use std::panic::{catch_unwind, AssertUnwindSafe};

/// everything the derived impls of the library's types ask of the group-assignment parameter
pub trait Impl: BlsSignatureImpl + PartialEq + Eq + Debug + Clone + Default + Serialize + DeserializeOwned + 'static {}
impl<T: BlsSignatureImpl + PartialEq + Eq + Debug + Clone + Default + Serialize + DeserializeOwned + 'static> Impl for T {}

/// the byte-conversion API every type offers (macros.rs impl_from_derivatives*)
pub trait ByteConv: Sized {
    const HAS_BYTES: bool = true;
    fn enc(&self) -> Vec<u8>;
    fn enc_owned(self) -> Vec<u8>;
    fn dec(b: &[u8]) -> Result<Self, String>;
    fn dec_vec(b: Vec<u8>) -> Result<Self, String>;
    fn dec_ref_vec(b: &Vec<u8>) -> Result<Self, String>;
    fn dec_box(b: Box<[u8]>) -> Result<Self, String>;
    /// from_be_bytes on the same bytes, where the type has it and the bytes fit its argument type
    fn dec_be(_b: &[u8]) -> Option<Result<Self, String>> {
        None
    }
    /// from_le_bytes on the little-endian form of the same bytes
    fn dec_le(_b: &[u8]) -> Option<Result<Self, String>> {
        None
    }
}

macro_rules! byteconv_scalar {
    ($t:ty) => {
        impl<C: BlsSignatureImpl> ByteConv for $t {
            fn enc(&self) -> Vec<u8> { Vec::<u8>::from(self) }
            fn enc_owned(self) -> Vec<u8> { Vec::<u8>::from(self) }
            fn dec(b: &[u8]) -> Result<Self, String> { <$t>::try_from(b).map_err(|e| e.to_string()) }
            fn dec_vec(b: Vec<u8>) -> Result<Self, String> { <$t>::try_from(b).map_err(|e| e.to_string()) }
            fn dec_ref_vec(b: &Vec<u8>) -> Result<Self, String> { <$t>::try_from(b).map_err(|e| e.to_string()) }
            fn dec_box(b: Box<[u8]>) -> Result<Self, String> { <$t>::try_from(b).map_err(|e| e.to_string()) }
            fn dec_be(b: &[u8]) -> Option<Result<Self, String>> {
                let a: [u8; 32] = b.try_into().ok()?;
                Some(Option::<Self>::from(<$t>::from_be_bytes(&a)).ok_or_else(|| "from_be_bytes: none".to_string()))
            }
            fn dec_le(b: &[u8]) -> Option<Result<Self, String>> {
                let mut a: [u8; 32] = b.try_into().ok()?;
                a.reverse();
                Some(Option::<Self>::from(<$t>::from_le_bytes(&a)).ok_or_else(|| "from_le_bytes: none".to_string()))
            }
        }
    };
}

macro_rules! byteconv {
    ($t:ty, $($g:tt)*) => {
        impl<$($g)*> ByteConv for $t {
            fn enc(&self) -> Vec<u8> { Vec::<u8>::from(self) }
            fn enc_owned(self) -> Vec<u8> { Vec::<u8>::from(self) }
            fn dec(b: &[u8]) -> Result<Self, String> { <$t>::try_from(b).map_err(|e| e.to_string()) }
            fn dec_vec(b: Vec<u8>) -> Result<Self, String> { <$t>::try_from(b).map_err(|e| e.to_string()) }
            fn dec_ref_vec(b: &Vec<u8>) -> Result<Self, String> { <$t>::try_from(b).map_err(|e| e.to_string()) }
            fn dec_box(b: Box<[u8]>) -> Result<Self, String> { <$t>::try_from(b).map_err(|e| e.to_string()) }
        }
    };
}
byteconv_scalar!(SecretKey<C>);
byteconv!(PublicKey<C>, C: BlsSignatureImpl);
byteconv!(MultiPublicKey<C>, C: BlsSignatureImpl);
byteconv!(ProofOfPossession<C>, C: BlsSignatureImpl);
byteconv!(Signature<C>, C: BlsSignatureImpl);
byteconv!(AggregateSignature<C>, C: BlsSignatureImpl);
byteconv!(MultiSignature<C>, C: BlsSignatureImpl);
byteconv!(ProofCommitment<C>, C: BlsSignatureImpl);
byteconv_scalar!(ProofCommitmentSecret<C>);
byteconv_scalar!(ProofCommitmentChallenge<C>);
byteconv!(ProofOfKnowledge<C>, C: BlsSignatureImpl);
byteconv!(ProofOfKnowledgeTimestamp<C>, C: BlsSignatureImpl);
byteconv!(SecretKeyShare<C>, C: BlsSignatureImpl);
byteconv!(PublicKeyShare<C>, C: BlsSignatureImpl);
byteconv!(SignatureShare<C>, C: BlsSignatureImpl);
byteconv!(SignDecryptionShare<C>, C: BlsSignatureImpl);
byteconv!(SignCryptCiphertext<C>, C: BlsSignatureImpl);
byteconv!(SignCryptDecryptionKey<C>, C: BlsSignatureImpl);
byteconv!(TimeCryptCiphertext<C>, C: BlsSignatureImpl);
byteconv!(ElGamalCiphertext<C>, C: BlsSignatureImpl);
byteconv!(ElGamalProof<C>, C: BlsSignatureImpl);
byteconv!(ElGamalDecryptionShare<C>, C: BlsSignatureImpl);
byteconv!(ElGamalDecryptionKey<C>, C: BlsSignatureImpl);
impl ByteConv for SecretKeyEnum {
    fn enc(&self) -> Vec<u8> { Vec::<u8>::from(self) }
    fn enc_owned(self) -> Vec<u8> { Vec::<u8>::from(self) }
    fn dec(b: &[u8]) -> Result<Self, String> { SecretKeyEnum::try_from(b).map_err(|e| e.to_string()) }
    fn dec_vec(b: Vec<u8>) -> Result<Self, String> { SecretKeyEnum::try_from(b).map_err(|e| e.to_string()) }
    fn dec_ref_vec(b: &Vec<u8>) -> Result<Self, String> { SecretKeyEnum::try_from(b).map_err(|e| e.to_string()) }
    fn dec_box(b: Box<[u8]>) -> Result<Self, String> { SecretKeyEnum::try_from(b).map_err(|e| e.to_string()) }
    fn dec_be(b: &[u8]) -> Option<Result<Self, String>> {
        Some(Option::<Self>::from(SecretKeyEnum::from_be_bytes(b)).ok_or_else(|| "from_be_bytes: none".to_string()))
    }
    fn dec_le(b: &[u8]) -> Option<Result<Self, String>> {
        let mut a = b.to_vec();
        if a.len() > 1 {
            a[1..].reverse();
        }
        Some(Option::<Self>::from(SecretKeyEnum::from_le_bytes(&a)).ok_or_else(|| "from_le_bytes: none".to_string()))
    }
}
byteconv!(InnerPointShareG1,);
byteconv!(InnerPointShareG2,);

/// serde-only types
macro_rules! nobytes {
    ($t:ty) => {
        impl ByteConv for $t {
            const HAS_BYTES: bool = false;
            fn enc(&self) -> Vec<u8> { vec![] }
            fn enc_owned(self) -> Vec<u8> { vec![] }
            fn dec(_: &[u8]) -> Result<Self, String> { Err("no byte conversion".into()) }
            fn dec_vec(_: Vec<u8>) -> Result<Self, String> { Err("no byte conversion".into()) }
            fn dec_ref_vec(_: &Vec<u8>) -> Result<Self, String> { Err("no byte conversion".into()) }
            fn dec_box(_: Box<[u8]>) -> Result<Self, String> { Err("no byte conversion".into()) }
        }
    };
}
nobytes!(SignatureSchemes);
nobytes!(Bls12381);

// ------------------------------------------------------------------ encodings of point / scalar classes
pub const R_BE: [u8; 32] = [
    0x73, 0xed, 0xa7, 0x53, 0x29, 0x9d, 0x7d, 0x48, 0x33, 0x39, 0xd8, 0x08, 0x09, 0xa1, 0xd8, 0x05, 0x53, 0xbd, 0xa4, 0x02, 0xff, 0xfe,
    0x5b, 0xfe, 0xff, 0xff, 0xff, 0xff, 0x00, 0x00, 0x00, 0x01,
];

/// 32 big-endian bytes of a scalar class
pub fn scalar_class_be(class: &str) -> [u8; 32] {
    let mut b = [0u8; 32];
    match class {
        "zero" => {}
        "one" => b[31] = 1,
        "byte80" => b[31] = 0x80, // byte-OR of the encoding is exactly 0x80 (the i8 negation edge of the zero test)
        "r_minus_1" => {
            b = R_BE;
            b[31] = 0;
        }
        "r" => b = R_BE,
        "r_plus_5" => {
            b = R_BE;
            b[31] = 6;
        }
        "max" => b = [0xff; 32],
        x => panic!("unknown scalar class {x}"),
    }
    b
}

/// compressed encodings of the point classes, built with the *other* backend's unchecked decoder
pub mod points {
    use bls12_381_plus::group::{Curve, Group};
    use bls12_381_plus::{G1Affine, G1Projective, G2Affine, G2Projective};
    use std::sync::OnceLock;

    pub struct Classes {
        pub offsubgroup: Vec<u8>,
        pub torsion: Vec<u8>, // a non-identity point of small order (r * offsubgroup)
        pub nopoint: Vec<u8>,
        pub noncanon: Vec<u8>,
        pub identity: Vec<u8>,
    }
    const R_BITS_BE: [u8; 32] = super::R_BE;

    fn mul_r<G: Group + Copy>(p: G) -> G {
        let mut acc = G::identity();
        for byte in R_BITS_BE.iter() {
            for i in (0..8).rev() {
                acc = acc.double();
                if (byte >> i) & 1 == 1 {
                    acc = acc + p;
                }
            }
        }
        acc
    }

    pub fn g1() -> &'static Classes {
        static C: OnceLock<Classes> = OnceLock::new();
        C.get_or_init(|| {
            let mut off = None;
            let mut nop = None;
            let mut x = 1u8;
            while off.is_none() || nop.is_none() {
                let mut b = [0u8; 48];
                b[0] = 0x80;
                b[47] = x;
                match Option::<G1Affine>::from(G1Affine::from_compressed_unchecked(&b)) {
                    Some(p) => {
                        if !bool::from(p.is_torsion_free()) && off.is_none() {
                            off = Some((b.to_vec(), p));
                        }
                    }
                    None => {
                        if nop.is_none() {
                            nop = Some(b.to_vec());
                        }
                    }
                }
                x += 1;
            }
            let (offb, offp) = off.unwrap();
            let t = mul_r(G1Projective::from(offp));
            assert!(!bool::from(t.is_identity()));
            let mut nc = [0xffu8; 48];
            nc[0] = 0x9f;
            Classes {
                offsubgroup: offb,
                torsion: t.to_affine().to_compressed().to_vec(),
                nopoint: nop.unwrap(),
                noncanon: nc.to_vec(),
                identity: G1Affine::identity().to_compressed().to_vec(),
            }
        })
    }
    pub fn g2() -> &'static Classes {
        static C: OnceLock<Classes> = OnceLock::new();
        C.get_or_init(|| {
            let mut off = None;
            let mut nop = None;
            let mut x = 1u8;
            while off.is_none() || nop.is_none() {
                let mut b = [0u8; 96];
                b[0] = 0x80;
                b[95] = x;
                match Option::<G2Affine>::from(G2Affine::from_compressed_unchecked(&b)) {
                    Some(p) => {
                        if !bool::from(p.is_torsion_free()) && off.is_none() {
                            off = Some((b.to_vec(), p));
                        }
                    }
                    None => {
                        if nop.is_none() {
                            nop = Some(b.to_vec());
                        }
                    }
                }
                x += 1;
            }
            let (offb, offp) = off.unwrap();
            let t = mul_r(G2Projective::from(offp));
            assert!(!bool::from(t.is_identity()));
            let mut nc = [0xffu8; 96];
            nc[0] = 0x9f;
            Classes {
                offsubgroup: offb,
                torsion: t.to_affine().to_compressed().to_vec(),
                nopoint: nop.unwrap(),
                noncanon: nc.to_vec(),
                identity: G2Affine::identity().to_compressed().to_vec(),
            }
        })
    }
    /// a G1 point of order exactly 3 (cofactor / 3 times the cofactor-torsion point; the cofactor of G1 is 3 * ...):
    /// every Lagrange coefficient that is a multiple of 3 - e.g. r - 1 for identifiers (1, 2) - annihilates it, so a
    /// recombination that validates only its *result* does not see it
    pub fn order3_g1() -> Option<G1Projective> {
        const H1_DIV_3_BE: [u8; 16] = [0x13, 0x24, 0x2e, 0xaa, 0xc7, 0x1c, 0xa0, 0x72, 0x2e, 0xaa, 0xe3, 0x8e, 0x55, 0x55, 0x8e, 0x39];
        let t: [u8; 48] = g1().torsion.clone().try_into().ok()?;
        let base = G1Projective::from(Option::<G1Affine>::from(G1Affine::from_compressed_unchecked(&t))?);
        let mut acc = G1Projective::identity();
        for byte in H1_DIV_3_BE.iter() {
            for i in (0..8).rev() {
                acc = acc.double();
                if (byte >> i) & 1 == 1 {
                    acc += base;
                }
            }
        }
        if bool::from(acc.is_identity()) || !bool::from((acc.double() + acc).is_identity()) {
            return None;
        }
        Some(acc)
    }
    /// valid G1 point + the order-3 point (48-byte encodings only; None for G2-sized input)
    pub fn shifted_order3(valid: &[u8]) -> Option<Vec<u8>> {
        if valid.len() != 48 {
            return None;
        }
        let a: [u8; 48] = valid.try_into().ok()?;
        let p = G1Projective::from(Option::<G1Affine>::from(G1Affine::from_compressed_unchecked(&a))?) + order3_g1()?;
        Some(p.to_affine().to_compressed().to_vec())
    }
    /// valid point + small-order point: on the curve, outside the subgroup, pairing-equivalent
    pub fn shifted(valid: &[u8]) -> Vec<u8> {
        if valid.len() == 48 {
            let a: [u8; 48] = valid.try_into().unwrap();
            let t: [u8; 48] = g1().torsion.clone().try_into().unwrap();
            let p = G1Projective::from(G1Affine::from_compressed_unchecked(&a).unwrap()) + G1Projective::from(G1Affine::from_compressed_unchecked(&t).unwrap());
            p.to_affine().to_compressed().to_vec()
        } else {
            let a: [u8; 96] = valid.try_into().unwrap();
            let t: [u8; 96] = g2().torsion.clone().try_into().unwrap();
            let p = G2Projective::from(G2Affine::from_compressed_unchecked(&a).unwrap()) + G2Projective::from(G2Affine::from_compressed_unchecked(&t).unwrap());
            p.to_affine().to_compressed().to_vec()
        }
    }
    pub fn class_bytes(len: usize, class: &str, valid: &[u8]) -> Vec<u8> {
        let c = if len == 48 { g1() } else { g2() };
        match class {
            "offsubgroup" => c.offsubgroup.clone(),
            "shifted" => shifted(valid),
            "nopoint" => c.nopoint.clone(),
            "noncanon" => c.noncanon.clone(),
            "identity" => c.identity.clone(),
            "badflags" => {
                let mut v = valid.to_vec();
                v[0] &= 0x7f; // compression flag cleared
                v
            }
            "infflag" => {
                let mut v = valid.to_vec();
                v[0] |= 0x40; // infinity flag on a finite point
                v
            }
            x => panic!("unknown point class {x}"),
        }
    }
    /// independent classification of a compressed encoding: "valid" | "identity" | "invalid"
    pub fn classify(b: &[u8]) -> &'static str {
        if b.len() == 48 {
            let a: [u8; 48] = b.try_into().unwrap();
            match Option::<G1Affine>::from(G1Affine::from_compressed(&a)) {
                Some(p) if bool::from(p.is_identity()) => "identity",
                Some(_) => "valid",
                None => "invalid",
            }
        } else if b.len() == 96 {
            let a: [u8; 96] = b.try_into().unwrap();
            match Option::<G2Affine>::from(G2Affine::from_compressed(&a)) {
                Some(p) if bool::from(p.is_identity()) => "identity",
                Some(_) => "valid",
                None => "invalid",
            }
        } else {
            "invalid"
        }
    }
}

// ------------------------------------------------------------------ layouts (from the spec tables)
#[derive(Clone, Debug)]
pub struct FieldAt {
    pub name: String,
    pub kind: String,
    pub start: usize,
    pub len: usize,
}

/// byte offsets of the fields of `bytes` (byte conversion / serde_bare form) per the spec's layout
pub fn locate(layout: &Value, group: &str, bytes: &[u8]) -> Result<Vec<FieldAt>, String> {
    let (ps, pk) = if group == "G1" { (48usize, 96usize) } else { (96, 48) };
    let mut out = vec![];
    let mut at = 0usize;
    for f in layout.as_array().ok_or("layout")? {
        let kind = gets(f, "kind");
        let len = match kind {
            "pointS" => ps,
            "pointK" => pk,
            "point48" => 48,
            "point96" => 96,
            "scalar" | "scalarLE" | "bytes32" => 32,
            "id" | "tag_scheme" | "tag_curve" | "tag_variant" | "tag_share" => 1,
            "u64le" => 8,
            "varbytes" => {
                // leb128 length prefix then that many bytes
                let mut n = 0usize;
                let mut used = 0usize;
                loop {
                    let b = *bytes.get(at + used).ok_or("varbytes prefix beyond end")?;
                    n |= ((b & 0x7f) as usize) << (7 * used);
                    used += 1;
                    if b & 0x80 == 0 {
                        break;
                    }
                }
                out.push(FieldAt { name: format!("{}_len", gets(f, "name")), kind: "varlen".into(), start: at, len: used });
                at += used;
                n
            }
            x => return Err(format!("unknown field kind {x}")),
        };
        out.push(FieldAt { name: gets(f, "name").to_string(), kind: kind.to_string(), start: at, len });
        at += len;
    }
    if at != bytes.len() {
        return Err(format!("layout covers {at} bytes, encoding has {}", bytes.len()));
    }
    Ok(out)
}

// ------------------------------------------------------------------ subjects
pub struct Mk<'a> {
    pub lib: &'a Lib<'a>,
    pub variant: &'a str,
    pub vclass: &'a str,
    pub seed: u64,
}

pub fn var_scheme(v: &str) -> SignatureSchemes {
    match v {
        "Basic" => SignatureSchemes::Basic,
        "Aug" => SignatureSchemes::MessageAugmentation,
        _ => SignatureSchemes::ProofOfPossession,
    }
}

impl<'a> Mk<'a> {
    pub fn key_int(&self) -> i64 {
        match self.vclass {
            "scalar1" => 1,
            "scalar_rm1" => -1,
            // 128: the byte-OR of the encoding is 0x80, the edge of the constant-time zero test
            "scalar80" => 128,
            _ => 1000 + (self.seed % 1000) as i64,
        }
    }
    pub fn sk<C: BlsSignatureImpl>(&self) -> SecretKey<C> {
        match self.vclass {
            "generic" => SecretKey::<C>::from_hash(format!("codec-{}", self.seed)),
            _ => self.lib.sk::<C>(self.key_int()),
        }
    }
    pub fn pt_s<C: BlsSignatureImpl>(&self) -> <C as Pairing>::Signature {
        if self.vclass == "identity" {
            <C as Pairing>::Signature::identity()
        } else {
            <C as Pairing>::Signature::generator() * self.sk::<C>().0
        }
    }
    pub fn pt_k<C: BlsSignatureImpl>(&self) -> <C as Pairing>::PublicKey {
        if self.vclass == "identity" {
            <C as Pairing>::PublicKey::identity()
        } else {
            <C as Pairing>::PublicKey::generator() * self.sk::<C>().0
        }
    }
    pub fn payload(&self) -> Vec<u8> {
        let n = match self.vclass {
            "empty" => 0,
            "one" => 1,
            "large" => 16384,
            _ => 40,
        };
        crate::signcrypt::msg_of_len(self.lib.conc, "codec", n)
    }
    pub fn share_id(&self) -> u8 {
        match self.vclass {
            "id1" => 1,
            "id255" => 255,
            "idany" => 1 + (self.seed % 255) as u8,
            _ => 7,
        }
    }
}

pub fn mk_sks<C: BlsSignatureImpl>(m: &Mk) -> SecretKeyShare<C> {
    let mut b = vec![m.share_id()];
    let mut le = m.sk::<C>().to_le_bytes().to_vec();
    b.append(&mut le);
    SecretKeyShare::<C>::try_from(b.as_slice()).expect("secret share container")
}
pub fn mk_pks<C: BlsSignatureImpl>(m: &Mk) -> PublicKeyShare<C> {
    let mut b = vec![m.share_id()];
    b.extend_from_slice(&enc_k::<C>(&m.pt_k::<C>()));
    PublicKeyShare::<C>::try_from(b.as_slice()).expect("share container")
}

#[macro_export]
macro_rules! subjects {
    ($mac:ident, $c:ty) => {
        $mac!("SecretKey", SecretKey<$c>, |m: &Mk| m.sk::<$c>());
        $mac!("SecretKeyEnum", SecretKeyEnum, |m: &Mk| if m.variant == "G1" { SecretKeyEnum::G1(m.sk::<Bls12381G1Impl>()) } else { SecretKeyEnum::G2(m.sk::<Bls12381G2Impl>()) });
        $mac!("PublicKey", PublicKey<$c>, |m: &Mk| PublicKey::<$c>(m.pt_k::<$c>()));
        $mac!("MultiPublicKey", MultiPublicKey<$c>, |m: &Mk| MultiPublicKey::<$c>(m.pt_k::<$c>()));
        $mac!("ProofOfPossession", ProofOfPossession<$c>, |m: &Mk| ProofOfPossession::<$c>(m.pt_s::<$c>()));
        $mac!("Signature", Signature<$c>, |m: &Mk| wrap_sig::<$c>(m.variant, m.pt_s::<$c>()));
        $mac!("AggregateSignature", AggregateSignature<$c>, |m: &Mk| match m.variant { "Basic" => AggregateSignature::<$c>::Basic(m.pt_s::<$c>()), "Aug" => AggregateSignature::MessageAugmentation(m.pt_s::<$c>()), _ => AggregateSignature::ProofOfPossession(m.pt_s::<$c>()) });
        $mac!("MultiSignature", MultiSignature<$c>, |m: &Mk| match m.variant { "Basic" => MultiSignature::<$c>::Basic(m.pt_s::<$c>()), "Aug" => MultiSignature::MessageAugmentation(m.pt_s::<$c>()), _ => MultiSignature::ProofOfPossession(m.pt_s::<$c>()) });
        $mac!("ProofCommitment", ProofCommitment<$c>, |m: &Mk| match m.variant { "Basic" => ProofCommitment::<$c>::Basic(m.pt_s::<$c>()), "Aug" => ProofCommitment::MessageAugmentation(m.pt_s::<$c>()), _ => ProofCommitment::ProofOfPossession(m.pt_s::<$c>()) });
        $mac!("ProofCommitmentSecret", ProofCommitmentSecret<$c>, |m: &Mk| ProofCommitmentSecret::<$c>(m.sk::<$c>().0));
        $mac!("ProofCommitmentChallenge", ProofCommitmentChallenge<$c>, |m: &Mk| ProofCommitmentChallenge::<$c>(m.sk::<$c>().0));
        $mac!("ProofOfKnowledge", ProofOfKnowledge<$c>, |m: &Mk| { let (u, v) = (m.pt_s::<$c>(), m.pt_s::<$c>().double()); match m.variant { "Basic" => ProofOfKnowledge::<$c>::Basic { u, v }, "Aug" => ProofOfKnowledge::MessageAugmentation { u, v }, _ => ProofOfKnowledge::ProofOfPossession { u, v } } });
        $mac!("ProofOfKnowledgeTimestamp", ProofOfKnowledgeTimestamp<$c>, |m: &Mk| { let (u, v) = (m.pt_s::<$c>(), m.pt_s::<$c>().double()); ProofOfKnowledgeTimestamp::<$c> { proof: match m.variant { "Basic" => ProofOfKnowledge::Basic { u, v }, "Aug" => ProofOfKnowledge::MessageAugmentation { u, v }, _ => ProofOfKnowledge::ProofOfPossession { u, v } }, timestamp: match m.vclass { "empty" => 0, "large" => u64::MAX, "one" => (1u64 << 53) + 1, _ => 1_700_000_000_123 } } });
        $mac!("SecretKeyShare", SecretKeyShare<$c>, |m: &Mk| mk_sks::<$c>(m));
        $mac!("PublicKeyShare", PublicKeyShare<$c>, |m: &Mk| mk_pks::<$c>(m));
        $mac!("SignatureShare", SignatureShare<$c>, |m: &Mk| { let mut b = vec![0u8, m.share_id()]; b.extend_from_slice(&enc_s::<$c>(&m.pt_s::<$c>())); let s = SignatureShare::<$c>::try_from(b.as_slice()).expect("share container"); let raw = *s.as_raw_value(); match m.variant { "Basic" => SignatureShare::Basic(raw), "Aug" => SignatureShare::MessageAugmentation(raw), _ => SignatureShare::ProofOfPossession(raw) } });
        $mac!("SignDecryptionShare", SignDecryptionShare<$c>, |m: &Mk| SignDecryptionShare::<$c>(mk_pks::<$c>(m).0));
        $mac!("SignCryptCiphertext", SignCryptCiphertext<$c>, |m: &Mk| SignCryptCiphertext::<$c> { u: m.pt_k::<$c>(), v: m.payload(), w: m.pt_s::<$c>(), scheme: var_scheme(m.variant) });
        $mac!("SignCryptDecryptionKey", SignCryptDecryptionKey<$c>, |m: &Mk| SignCryptDecryptionKey::<$c>(m.pt_k::<$c>()));
        $mac!("TimeCryptCiphertext", TimeCryptCiphertext<$c>, |m: &Mk| { let mut v = [0u8; 32]; v.copy_from_slice(&crate::signcrypt::msg_of_len(m.lib.conc, "tcv", 32)); TimeCryptCiphertext::<$c> { u: m.pt_k::<$c>(), v, w: m.payload(), scheme: var_scheme(m.variant) } });
        $mac!("ElGamalCiphertext", ElGamalCiphertext<$c>, |m: &Mk| ElGamalCiphertext::<$c> { c1: m.pt_k::<$c>(), c2: m.pt_k::<$c>().double() });
        $mac!("ElGamalProof", ElGamalProof<$c>, |m: &Mk| ElGamalProof::<$c> { ciphertext: ElGamalCiphertext { c1: m.pt_k::<$c>(), c2: m.pt_k::<$c>().double() }, message_proof: m.sk::<$c>().0, blinder_proof: m.sk::<$c>().0.double(), challenge: m.sk::<$c>().0.square() });
        $mac!("ElGamalDecryptionShare", ElGamalDecryptionShare<$c>, |m: &Mk| ElGamalDecryptionShare::<$c>(mk_pks::<$c>(m).0));
        $mac!("ElGamalDecryptionKey", ElGamalDecryptionKey<$c>, |m: &Mk| ElGamalDecryptionKey::<$c>(m.pt_k::<$c>()));
        $mac!("InnerPointShareG1", InnerPointShareG1, |m: &Mk| { let mut a = [0u8; 49]; a[0] = m.share_id(); a[1..].copy_from_slice(&points::class_bytes(48, "identity", &[])); if m.vclass != "identity" { let p = bls12_381_plus::G1Projective::generator() * crate::refeval::rscalar(m.key_int()); a[1..].copy_from_slice(&<bls12_381_plus::G1Affine as From<bls12_381_plus::G1Projective>>::from(p).to_compressed()); } InnerPointShareG1(a) });
        $mac!("InnerPointShareG2", InnerPointShareG2, |m: &Mk| { let mut a = [0u8; 97]; a[0] = m.share_id(); a[1..].copy_from_slice(&points::class_bytes(96, "identity", &[])); if m.vclass != "identity" { let p = bls12_381_plus::G2Projective::generator() * crate::refeval::rscalar(m.key_int()); a[1..].copy_from_slice(&<bls12_381_plus::G2Affine as From<bls12_381_plus::G2Projective>>::from(p).to_compressed()); } InnerPointShareG2(a) });
        $mac!("SignatureSchemes", SignatureSchemes, |m: &Mk| var_scheme(m.variant));
        $mac!("Bls12381", Bls12381, |m: &Mk| if m.variant == "G1" { Bls12381::G1 } else { Bls12381::G2 });
    };
}

#[derive(Debug, Clone, PartialEq)]
pub enum Dec {
    Same,
    Other,
    Err,
    Abort(String),
    /// the entry points of one codec (from_str / from_slice / from_reader / from_value, ...) disagree on one input
    Split(String),
}
impl Dec {
    pub fn class(&self) -> &'static str {
        match self {
            Dec::Same | Dec::Other => "Ok",
            Dec::Err => "Err",
            Dec::Abort(_) => "Abort",
            Dec::Split(_) => "Split",
        }
    }
}

pub fn guard<T>(f: impl FnOnce() -> Result<T, String>) -> Result<Result<T, String>, String> {
    catch_unwind(AssertUnwindSafe(f)).map_err(|p| p.downcast_ref::<String>().cloned().or_else(|| p.downcast_ref::<&str>().map(|s| s.to_string())).unwrap_or_else(|| "panic".into()))
}

/// C15 on one value: all codecs and container conversions return an equal value; deterministic
pub fn roundtrip<T>(val: &T, expect_bytes_ok: bool) -> Result<(u64, Vec<usize>), String>
where
    T: ByteConv + Serialize + DeserializeOwned + PartialEq + Clone,
{
    let mut n = 0u64;
    let mut lens = vec![];
    if T::HAS_BYTES {
        let b = val.enc();
        if b != val.clone().enc_owned() || b != val.enc() {
            return Err("byte conversion is not deterministic / owned and borrowed forms differ".into());
        }
        lens.push(b.len());
        let outs = [
            guard(|| T::dec(&b)),
            guard(|| T::dec_vec(b.clone())),
            guard(|| T::dec_ref_vec(&b)),
            guard(|| T::dec_box(b.clone().into_boxed_slice())),
        ];
        for (i, o) in outs.into_iter().enumerate() {
            match o {
                Err(p) => return Err(format!("byte conversion form {i} aborted: {p}")),
                Ok(Err(e)) => {
                    if expect_bytes_ok {
                        return Err(format!("byte conversion form {i} does not decode its own output: {e}"));
                    }
                }
                Ok(Ok(v)) => {
                    if &v != val {
                        return Err(format!("byte conversion form {i} returns another value"));
                    }
                }
            }
            n += 1;
        }
    } else {
        lens.push(0);
    }
    let bare = serde_bare::to_vec(val).map_err(|e| format!("serde_bare encode: {e}"))?;
    if bare != serde_bare::to_vec(val).unwrap() {
        return Err("serde_bare output is not deterministic".into());
    }
    lens.push(bare.len());
    match decode_bare(val, &bare) {
        (Dec::Abort(p), _) => return Err(format!("serde_bare decode aborted: {p}")),
        (Dec::Split(p), _) => return Err(format!("serde_bare entry points disagree on the library's own output: {p}")),
        (Dec::Err, _) => return Err("serde_bare does not decode its own output".into()),
        (Dec::Other, _) => return Err("serde_bare returns another value".into()),
        (Dec::Same, _) => {}
    }
    n += 2;
    let js = serde_json::to_string(val).map_err(|e| format!("serde_json encode: {e}"))?;
    lens.push(js.len());
    if serde_json::to_vec(val).map_err(|e| e.to_string())? != js.as_bytes() {
        return Err("serde_json::to_vec and to_string differ".into());
    }
    let doc = serde_json::to_value(val).map_err(|e| format!("serde_json::to_value: {e}"))?;
    if serde_json::from_str::<Value>(&js).ok().as_ref() != Some(&doc) {
        return Err("serde_json::to_value and to_string describe different documents".into());
    }
    // compact, pretty-printed and string-escaped texts of the same document, each through every entry point
    let texts = [js.clone(), serde_json::to_string_pretty(val).map_err(|e| e.to_string())?, escape_strings(&doc)];
    for (i, t) in texts.iter().enumerate() {
        match decode_json(val, t) {
            (Dec::Abort(p), _) => return Err(format!("serde_json decode aborted (text form {i}): {p}")),
            (Dec::Split(p), _) => return Err(format!("serde_json entry points disagree on the library's own output (text form {i}): {p}")),
            (Dec::Err, _) => return Err(format!("serde_json does not decode its own output (text form {i}: compact / pretty / escaped strings)")),
            (Dec::Other, _) => return Err(format!("serde_json returns another value (text form {i})")),
            (Dec::Same, _) => {}
        }
        n += 4;
    }
    Ok((n, lens))
}

pub fn decode_bytes<T: ByteConv + PartialEq>(orig: &T, b: &[u8]) -> (Dec, Option<T>) {
    let first = dec_of(orig, guard(|| T::dec(b)));
    let mut others = vec![
        ("TryFrom<Vec<u8>>", dec_of(orig, guard(|| T::dec_vec(b.to_vec())))),
        ("TryFrom<&Vec<u8>>", dec_of(orig, guard(|| T::dec_ref_vec(&b.to_vec())))),
        ("TryFrom<Box<[u8]>>", dec_of(orig, guard(|| T::dec_box(b.to_vec().into_boxed_slice())))),
    ];
    // the endian-named constructors on the same value (big-endian bytes as given, little-endian bytes reversed)
    match std::panic::catch_unwind(std::panic::AssertUnwindSafe(|| T::dec_be(b))) {
        Ok(Some(r)) => others.push(("from_be_bytes", dec_of(orig, Ok(r)))),
        Ok(None) => {}
        Err(_) => return (Dec::Abort("from_be_bytes panicked".into()), None),
    }
    match std::panic::catch_unwind(std::panic::AssertUnwindSafe(|| T::dec_le(b))) {
        Ok(Some(r)) => others.push(("from_le_bytes", dec_of(orig, Ok(r)))),
        Ok(None) => {}
        Err(_) => return (Dec::Abort("from_le_bytes panicked".into()), None),
    }
    agree(first, others)
}
fn dec_of<T: PartialEq>(orig: &T, r: Result<Result<T, String>, String>) -> (Dec, Option<T>) {
    match r {
        Err(p) => (Dec::Abort(p), None),
        Ok(Err(_)) => (Dec::Err, None),
        Ok(Ok(v)) => (if &v == orig { Dec::Same } else { Dec::Other }, Some(v)),
    }
}
/// all entry points of one codec must agree on one input (a decoder that only works on borrowed input, or
/// only through one front end, is a divergence between API paths that are supposed to be equivalent)
fn agree<T: PartialEq>(first: (Dec, Option<T>), others: Vec<(&'static str, (Dec, Option<T>))>) -> (Dec, Option<T>) {
    for (name, (d, v)) in others {
        if let Dec::Abort(p) = d {
            return (Dec::Abort(format!("{name}: {p}")), None);
        }
        if d.class() != first.0.class() || (d.class() == "Ok" && v != first.1) {
            return (Dec::Split(format!("{name} returns {} where the first entry point returns {}", d.class(), first.0.class())), None);
        }
    }
    first
}
pub fn decode_bare<T: DeserializeOwned + PartialEq>(orig: &T, b: &[u8]) -> (Dec, Option<T>) {
    let first = dec_of(orig, guard(|| serde_bare::from_slice::<T>(b).map_err(|e| e.to_string())));
    let rd = dec_of(orig, guard(|| serde_bare::from_reader::<_, T>(std::io::Cursor::new(b.to_vec())).map_err(|e| e.to_string())));
    agree(first, vec![("serde_bare::from_reader", rd)])
}
pub fn decode_json<T: DeserializeOwned + PartialEq>(orig: &T, s: &str) -> (Dec, Option<T>) {
    let first = dec_of(orig, guard(|| serde_json::from_str::<T>(s).map_err(|e| e.to_string())));
    let mut others = vec![
        ("serde_json::from_slice", dec_of(orig, guard(|| serde_json::from_slice::<T>(s.as_bytes()).map_err(|e| e.to_string())))),
        ("serde_json::from_reader", dec_of(orig, guard(|| serde_json::from_reader::<_, T>(std::io::Cursor::new(s.as_bytes().to_vec())).map_err(|e| e.to_string())))),
    ];
    // through the document model (owned strings), when the text is a JSON document whose numbers the model represents exactly
    if let Ok(doc) = serde_json::from_str::<Value>(s) {
        if serde_json::to_string(&doc).map(|t| strip_ws(&t) == strip_ws(s)).unwrap_or(false) {
            others.push(("serde_json::from_value", dec_of(orig, guard(|| serde_json::from_value::<T>(doc.clone()).map_err(|e| e.to_string())))));
        }
    }
    agree(first, others)
}
fn strip_ws(s: &str) -> String {
    s.chars().filter(|c| !c.is_whitespace()).collect()
}
/// the same JSON document with the first character of every string value written as a \u escape
/// (a deserializer must then hand out owned text even from a borrowed input)
pub fn escape_strings(v: &Value) -> String {
    match v {
        Value::String(t) => {
            let mut out = String::from("\"");
            for (i, c) in t.chars().enumerate() {
                if i == 0 {
                    out.push_str(&format!("\\u{:04x}", c as u32));
                } else {
                    out.push_str(&serde_json::to_string(&c.to_string()).unwrap().trim_matches('"').to_string());
                }
            }
            out.push('"');
            out
        }
        Value::Array(a) => format!("[{}]", a.iter().map(escape_strings).collect::<Vec<_>>().join(",")),
        Value::Object(m) => format!("{{{}}}", m.iter().map(|(k, x)| format!("{}:{}", serde_json::to_string(k).unwrap(), escape_strings(x))).collect::<Vec<_>>().join(",")),
        x => x.to_string(),
    }
}

/// walk a JSON document and collect paths of the leaves that carry fields (strings and numbers)
fn json_leaves(v: &Value, path: &mut Vec<String>, out: &mut Vec<(Vec<String>, Value)>) {
    match v {
        Value::Object(m) => {
            for (k, x) in m {
                path.push(k.clone());
                json_leaves(x, path, out);
                path.pop();
            }
        }
        Value::Array(a) if a.iter().all(|x| x.is_number()) && a.len() > 2 => out.push((path.clone(), v.clone())),
        Value::Array(a) => {
            for (i, x) in a.iter().enumerate() {
                path.push(i.to_string());
                json_leaves(x, path, out);
                path.pop();
            }
        }
        _ => out.push((path.clone(), v.clone())),
    }
}
fn json_set(v: &mut Value, path: &[String], new: Value) {
    if path.is_empty() {
        *v = new;
        return;
    }
    match v {
        Value::Object(m) => json_set(m.get_mut(&path[0]).unwrap(), &path[1..], new),
        Value::Array(a) => json_set(&mut a[path[0].parse::<usize>().unwrap()], &path[1..], new),
        _ => {}
    }
}

/// apply a mutation to the byte / bare form; returns the mutated encodings (a class may expand to several)
pub fn mutate_bytes(layout: &Value, group: &str, enc: &[u8], m: &Value) -> Result<Vec<Vec<u8>>, String> {
    let kind = gets(m, "kind");
    match kind {
        "none" => Ok(vec![enc.to_vec()]),
        "trunc_all" => Ok((0..enc.len()).map(|l| enc[..l].to_vec()).collect()),
        "trunc" => {
            let fields = locate(layout, group, enc)?;
            let mut cuts: Vec<usize> = vec![0, 1, enc.len().saturating_sub(1)];
            for f in &fields {
                cuts.push(f.start);
                cuts.push(f.start + 1);
                cuts.push((f.start + f.len).saturating_sub(1));
            }
            cuts.retain(|c| *c < enc.len());
            cuts.sort();
            cuts.dedup();
            Ok(cuts.into_iter().map(|l| enc[..l].to_vec()).collect())
        }
        "extend" => Ok(vec![[enc, &[0u8][..]].concat(), [enc, &[0xffu8; 5][..]].concat()]),
        "prepend" => {
            let b: u8 = gets(m, "class").parse().map_err(|_| "prepend class".to_string())?;
            Ok(vec![[&[b][..], enc].concat()])
        }
        "point" | "scalar" | "tag" | "id" | "varlen" => {
            let fields = locate(layout, group, enc)?;
            let fname = gets(m, "field");
            let f = fields.iter().find(|f| f.name == fname).ok_or_else(|| format!("no field {fname}"))?;
            let mut out = enc.to_vec();
            let class = gets(m, "class");
            match kind {
                "point" => {
                    let valid = enc[f.start..f.start + f.len].to_vec();
                    let nb = points::class_bytes(f.len, class, &valid);
                    out[f.start..f.start + f.len].copy_from_slice(&nb);
                }
                "scalar" => {
                    let mut be = scalar_class_be(class);
                    if f.kind == "scalarLE" {
                        be.reverse();
                    }
                    out[f.start..f.start + 32].copy_from_slice(&be);
                }
                "tag" | "id" => {
                    out[f.start] = class.parse::<u8>().map_err(|e| e.to_string())?;
                }
                "varlen" => {
                    // the declared length of a variable-length field, rewritten
                    let lf = fields.iter().find(|x| x.name == format!("{fname}_len")).ok_or("no length prefix")?;
                    let newp: Vec<u8> = match class {
                        "plus1" => leb128(f.len as u64 + 1),
                        "huge" => vec![0xff, 0xff, 0xff, 0xff, 0xff, 0xff, 0xff, 0xff, 0xff, 0x01],
                        "overlong" => vec![0xff; 12],
                        "zero" => vec![0],
                        x => return Err(format!("unknown varlen class {x}")),
                    };
                    out.splice(lf.start..lf.start + lf.len, newp);
                }
                _ => unreachable!(),
            }
            Ok(vec![out])
        }
        x => Err(format!("unknown mutation kind {x}")),
    }
}

pub fn mutate_json(js: &str, m: &Value, group: &str) -> Result<Vec<String>, String> {
    let kind = gets(m, "kind");
    match kind {
        "none" => Ok(vec![js.to_string()]),
        "trunc_all" | "trunc" => {
            let step = if kind == "trunc_all" || js.len() < 200 { 1 } else { js.len() / 97 + 1 };
            Ok((0..js.len()).step_by(step).map(|l| js[..l].to_string()).collect())
        }
        "extend" => Ok(vec![format!("{js}0"), format!("{js}{js}")]),
        "shape" => {
            let doc: Value = serde_json::from_str(js).map_err(|e| e.to_string())?;
            let class = gets(m, "class");
            // the object that carries the fields: the document itself, or the single value of an enum wrapper
            let text = |v: &Value| serde_json::to_string(v).unwrap();
            let outs: Vec<String> = match class {
                "dupkey" => match &doc {
                    Value::Object(o) if !o.is_empty() => {
                        let (k, v) = o.iter().next().unwrap();
                        let body = text(&doc);
                        vec![format!("{},{}:{}}}", &body[..body.len() - 1], text(&Value::String(k.clone())), text(v)),
                             format!("{{{}:{},{}", text(&Value::String(k.clone())), text(v), &body[1..])]
                    }
                    _ => vec![format!("[{js},{js}]")],
                },
                "extrakey" => match &doc {
                    Value::Object(_) => {
                        let body = text(&doc);
                        vec![format!("{},\"zz_unknown\":1}}", &body[..body.len() - 1]), format!("{{\"0\":null,{}", &body[1..])]
                    }
                    _ => vec![format!("{{\"value\":{js}}}")],
                },
                "reorder" => match &doc {
                    Value::Object(o) if o.len() > 1 => {
                        let mut items: Vec<String> = o.iter().map(|(k, v)| format!("{}:{}", text(&Value::String(k.clone())), text(v))).collect();
                        items.reverse();
                        vec![format!("{{{}}}", items.join(","))]
                    }
                    _ => vec![js.to_string()],
                },
                "array" => match &doc {
                    Value::Object(o) => vec![format!("[{}]", o.values().map(text).collect::<Vec<_>>().join(",")), "[]".to_string()],
                    _ => vec![format!("[{js}]")],
                },
                "null" => vec!["null".to_string(), js.replacen('"', "null,\"", 1)],
                "number" => vec!["0".to_string(), "18446744073709551616".to_string(), "-1".to_string(), "1e400".to_string(), "true".to_string()],
                "nested" => vec![format!("{{\"a\":{js}}}"), format!("[[{js}]]")],
                "blanks" => vec![format!(" \n\t{js} \r\n"), js.replace(':', " : ").replace(',', " ,\n")],
                "deep" => vec!["[".repeat(200) + &"]".repeat(200), "{\"a\":".repeat(150) + "1" + &"}".repeat(150)],
                // the *names* in the document (variant keys, scheme and curve names - every string that is not a hex
                // leaf): a multi-byte character at every position, other letter case, emptied, very long
                "names" => {
                    let mut outs = vec![];
                    let mut names = vec![];
                    fn collect(v: &Value, out: &mut Vec<String>) {
                        match v {
                            Value::Object(o) => {
                                for (k, x) in o {
                                    out.push(k.clone());
                                    collect(x, out);
                                }
                            }
                            Value::Array(a) => a.iter().for_each(|x| collect(x, out)),
                            Value::String(t) if t.len() < 64 => out.push(t.clone()),
                            _ => {}
                        }
                    }
                    collect(&doc, &mut names);
                    names.sort();
                    names.dedup();
                    for nm in names.iter().filter(|n| !n.is_empty()) {
                        let quoted = text(&Value::String(nm.clone()));
                        let mut alts: Vec<String> = vec![nm.to_uppercase(), nm.to_lowercase(), String::new(), nm.repeat(40), format!(" {nm}"), format!("{nm}\u{0}")];
                        for ch in ['\u{e9}', '\u{20ac}', '\u{1f600}'] {
                            for p in 0..=nm.len() {
                                if nm.is_char_boundary(p) {
                                    let q = (p + 1).min(nm.len());
                                    alts.push(format!("{}{}{}", &nm[..p], ch, &nm[q..]));
                                    // the same number of *bytes* as the original name (a length check passes, a byte
                                    // index then lands inside the character)
                                    let q2 = p + ch.len_utf8();
                                    if q2 <= nm.len() && nm.is_char_boundary(q2) {
                                        alts.push(format!("{}{}{}", &nm[..p], ch, &nm[q2..]));
                                    }
                                }
                            }
                        }
                        for a in alts {
                            if &a != nm {
                                outs.push(js.replacen(&quoted, &text(&Value::String(a)), 1));
                            }
                        }
                    }
                    if outs.is_empty() {
                        outs.push(js.to_string());
                    }
                    outs
                }
                x => return Err(format!("unknown shape class {x}")),
            };
            Ok(outs)
        }
        "point" | "scalar" | "hex" => {
            let mut doc: Value = serde_json::from_str(js).map_err(|e| e.to_string())?;
            let mut leaves = vec![];
            json_leaves(&doc, &mut vec![], &mut leaves);
            let (ps, pk) = if group == "G1" { (96usize, 192usize) } else { (192, 96) };
            let _ = (ps, pk);
            // the i-th hex leaf of the wanted kind (document order; kinds are told apart by length:
            // 64 digits = scalar, 96/192 = point, 98/194 = share container, 66 = secret share)
            let idx = geti(m, "leaf") as usize;
            let hexes: Vec<&(Vec<String>, Value)> = leaves
                .iter()
                .filter(|(_, v)| {
                    v.as_str()
                        .map(|s| {
                            s.len() >= 64
                                && s.chars().all(|c| c.is_ascii_hexdigit())
                                && match kind {
                                    "point" => [96, 192, 98, 194].contains(&s.len()),
                                    "scalar" => s.len() == 64,
                                    _ => true,
                                }
                        })
                        .unwrap_or(false)
                })
                .collect();
            let (path, old) = hexes.get(idx).ok_or_else(|| format!("no hex leaf {idx} in {js}"))?;
            let old = old.as_str().unwrap();
            let class = gets(m, "class");
            if kind == "hex" && class == "utf8" {
                // multi-byte characters (2, 3 and 4 bytes) at the start, around the 8- and 16-byte marks and at the
                // end of the text: never hex, so never accepted, and never an abort
                let mut outs = vec![];
                let n = old.len();
                for ch in ['\u{e9}', '\u{20ac}', '\u{1f600}'] {
                    for p in [0usize, 7, 13, 14, 15, 16, n.saturating_sub(1)] {
                        if p < n {
                            let t = format!("{}{}{}", &old[..p], ch, &old[p + 1..]);
                            let mut d = doc.clone();
                            json_set(&mut d, path, Value::String(t));
                            outs.push(serde_json::to_string(&d).unwrap());
                        }
                        // byte length preserved: the character takes the place of as many hex digits as it has bytes
                        if p + ch.len_utf8() <= n {
                            let t = format!("{}{}{}", &old[..p], ch, &old[p + ch.len_utf8()..]);
                            let mut d = doc.clone();
                            json_set(&mut d, path, Value::String(t));
                            outs.push(serde_json::to_string(&d).unwrap());
                        }
                    }
                }
                return Ok(outs);
            }
            let new = match kind {
                "point" => {
                    let valid = hex::decode(old).map_err(|e| e.to_string())?;
                    // share containers carry an id byte in front of the point
                    if valid.len() == 49 || valid.len() == 97 {
                        let mut v = vec![valid[0]];
                        v.extend_from_slice(&points::class_bytes(valid.len() - 1, class, &valid[1..]));
                        hex::encode(v)
                    } else {
                        hex::encode(points::class_bytes(valid.len(), class, &valid))
                    }
                }
                "scalar" => hex::encode(scalar_class_be(class)),
                _ => match class {
                    "nonhex" => format!("zz{}", &old[2..]),
                    "odd" => old[1..].to_string(),
                    "short" => old[..old.len() - 2].to_string(),
                    "long" => format!("{old}00"),
                    "empty" => String::new(),
                    "upper" => old.to_uppercase(),
                    // a sign in place of the zero high nibble of some byte ("+a" is what a radix parser takes for "0a"),
                    // a blank in the same place
                    "plus" | "blank" => {
                        let ch = if class == "plus" { "+" } else { " " };
                        match (0..old.len()).step_by(2).find(|i| &old[*i..*i + 1] == "0") {
                            Some(i) => format!("{}{}{}", &old[..i], ch, &old[i + 1..]),
                            None => format!("{}{}", ch, &old[1..]),
                        }
                    }
                    x => return Err(format!("unknown hex class {x}")),
                },
            };
            json_set(&mut doc, path, Value::String(new));
            Ok(vec![serde_json::to_string(&doc).unwrap()])
        }
        x => Err(format!("unknown json mutation kind {x}")),
    }
}

/// what the decoders returned for one vector
pub struct Observed {
    pub decs: Vec<Dec>,
    pub lens: Vec<usize>,
}

pub fn run_subject<T>(val: T, v: &Value, group: &str, tables: &Tables, consume: &dyn Fn(&T) -> Result<String, String>) -> Outcome
where
    T: ByteConv + Serialize + DeserializeOwned + PartialEq + Clone,
{
    let codec = gets(v, "codec");
    let m = &v["mut"];
    let tname = gets(v, "type");
    let layout = &tables.0["layout"][tname];
    let want = gets(&v["expect"], "res");
    let want_same = v["expect"].get("same").and_then(|x| x.as_bool());
    let mut o = Outcome::pass(json!({}));
    if gets(m, "kind") == "none" {
        // C15: the value survives every encoding unchanged
        match roundtrip(&val, want == "Ok") {
            Ok((n, lens)) => {
                o.extra += n;
                o.obs = json!({"lens": lens});
                // fixed-size types: the length is the one the layout predicts
                if let Some(exp) = tables.0["lens"][tname][group].as_i64().filter(|e| *e > 0 && codec != "json") {
                    let got = match codec {
                        "bytes" => lens[0],
                        "bare" => lens[1],
                        _ => lens[2],
                    } as i64;
                    if (codec == "bare" || T::HAS_BYTES) && got != exp {
                        return Outcome::fail(json!({"len": got, "want": exp}), format!("encoded length of {tname}/{codec} differs from the layout"));
                    }
                }
            }
            Err(e) => {
                if want == "Ok" {
                    return Outcome::fail(json!({}), e);
                }
            }
        }
    }
    // the mutated encodings
    let results: Vec<(Dec, Option<T>)> = match codec {
        "bytes" => {
            if !T::HAS_BYTES {
                return o;
            }
            let enc = val.enc();
            match mutate_bytes(layout, group, &enc, m) {
                Ok(ms) => ms.iter().map(|b| decode_bytes(&val, b)).collect(),
                Err(e) => return Outcome::fail(json!({}), format!("cannot place mutation: {e}")),
            }
        }
        "bare" => {
            let enc = serde_bare::to_vec(&val).unwrap();
            match mutate_bytes(layout, group, &enc, m) {
                Ok(ms) => ms.iter().map(|b| decode_bare(&val, b)).collect(),
                Err(e) => return Outcome::fail(json!({}), format!("cannot place mutation: {e}")),
            }
        }
        _ => {
            let js = serde_json::to_string(&val).unwrap();
            match mutate_json(&js, m, group) {
                Ok(ms) => ms.iter().map(|s| decode_json(&val, s)).collect(),
                Err(e) => return Outcome::fail(json!({}), format!("cannot place mutation: {e}")),
            }
        }
    };
    for (d, decoded) in results {
        o.extra += 1;
        if let Dec::Abort(p) = &d {
            let mut f = Outcome::fail(json!({"abort": p, "type": tname, "codec": codec, "mut": m}), "decoder aborted (panic)");
            f.notes.push("abort".into());
            return f;
        }
        if let Dec::Split(p) = &d {
            return Outcome::fail(json!({"split": p, "type": tname, "codec": codec, "mut": m}), format!("the entry points of the {tname}/{codec} decoder disagree on one input: {p}"));
        }
        if !(want == "Any" && (d.class() == "Ok" || d.class() == "Err")) && d.class() != want {
            return Outcome::fail(json!({"res": d.class(), "type": tname, "codec": codec, "mut": m}), format!("spec predicts {want}, {tname}/{codec} decoder returned {}", d.class()));
        }
        if let Some(ws) = want_same {
            if want != "Any" && d.class() == "Ok" && (d == Dec::Same) != ws {
                return Outcome::fail(json!({"same": d == Dec::Same}), "decoded value equality with the original: not as the spec predicts");
            }
        }
        // whatever decodes is fed to every consuming method: none may abort, and the lazily
        // validated share containers must report an error on use
        if let Some(x) = decoded {
            match catch_unwind(AssertUnwindSafe(|| consume(&x))) {
                Err(_) => {
                    let mut f = Outcome::fail(json!({"type": tname, "codec": codec, "mut": m}), "a consumer of a decoded value aborted (panic)");
                    f.notes.push("abort".into());
                    return f;
                }
                Ok(r) => {
                    if let Some(wu) = v["expect"].get("use").and_then(|x| x.as_str()) {
                        let got = if r.is_ok() { "Ok" } else { "Err" };
                        if wu != "-" && wu != got {
                            return Outcome::fail(json!({"use": got, "detail": r.unwrap_or_else(|e| e), "type": tname, "codec": codec, "mut": m}),
                                format!("spec predicts use={wu} for the decoded {tname}, consumers returned {got}"));
                        }
                    }
                }
            }
            o.extra += 1;
        }
    }
    o
}

/// consumers: every method applicable to a decoded value.  Ok(summary) if all returned normally and
/// accepted the value, Err(reason) if some consumer reported an error (no abort either way).
pub mod consumers {
    use super::*;
    pub fn fmt<T: Debug>(x: &T) -> String {
        format!("{:?}", x).len().to_string()
    }
    pub fn pk_share<C: Impl>(s: &PublicKeyShare<C>, lib: &Lib) -> Result<String, String> {
        let _ = format!("{} {:?}", s, s);
        // a second, honest share with another id so the combiner reaches the payload check
        let id = Vec::<u8>::from(s)[0];
        let mut b = Vec::<u8>::from(s);
        b[0] = if id == 1 { 2 } else { 1 };
        let good = lib.sk::<C>(5).public_key();
        b[1..].copy_from_slice(&Vec::<u8>::from(&good));
        let other = PublicKeyShare::<C>::try_from(b.as_slice()).map_err(|e| e.to_string())?;
        let r1 = PublicKey::<C>::from_shares(&[*s, other]).map(|_| ()).map_err(|e| e.to_string());
        // verify a signature share against it
        let sig = {
            let mut sb = vec![0u8, id];
            sb.extend_from_slice(&enc_s::<C>(&(<C as Pairing>::Signature::generator())));
            SignatureShare::<C>::try_from(sb.as_slice()).map_err(|e| e.to_string())?
        };
        let r2 = s.verify(&sig, b"m").map_err(|e| e.to_string());
        let invalid_payload = match &r2 {
            Err(e) => e.contains("sharing") || e.contains("secret sharing"),
            Ok(_) => false,
        };
        match (r1, invalid_payload) {
            (Err(e), _) => Err(e),
            (Ok(()), true) => Err("verify reported an invalid share payload".into()),
            (Ok(()), false) => Ok("ok".into()),
        }
    }
    pub fn sig_share<C: Impl>(s: &SignatureShare<C>, lib: &Lib) -> Result<String, String> {
        let _ = format!("{} {:?}", s, s);
        let b = Vec::<u8>::from(s);
        let id = b[1];
        let mut ob = b.clone();
        ob[1] = if id == 1 { 2 } else { 1 };
        let good = *lib.sk::<C>(5).sign(SignatureSchemes::Basic, b"x").unwrap().as_raw_value();
        ob[2..].copy_from_slice(&enc_s::<C>(&good));
        let other = SignatureShare::<C>::try_from(ob.as_slice()).map_err(|e| e.to_string())?;
        let r1 = Signature::<C>::from_shares(&[*s, other]).map(|_| ()).map_err(|e| e.to_string());
        let pks = {
            let mut pb = vec![id];
            pb.extend_from_slice(&Vec::<u8>::from(&lib.sk::<C>(5).public_key()));
            PublicKeyShare::<C>::try_from(pb.as_slice()).map_err(|e| e.to_string())?
        };
        let r2 = s.verify(&pks, b"m").map_err(|e| e.to_string());
        // the trait-level entry points (BlsSignatureBasic / BlsSignaturePop ::partial_verify) decode the share too
        let r3 = <C as BlsSignatureBasic>::partial_verify(pks.0, *s.as_raw_value(), b"m").map_err(|e| e.to_string());
        let r4 = <C as BlsSignaturePop>::partial_verify(pks.0, *s.as_raw_value(), b"m").map_err(|e| e.to_string());
        let bad = |r: &Result<(), String>| matches!(r, Err(e) if e.contains("sharing"));
        // every path must agree on whether the payload is a valid subgroup point
        let rejects = [r1.is_err(), bad(&r2), bad(&r3), bad(&r4)];
        if rejects.iter().all(|x| *x) {
            Err("every consumer refuses the share".into())
        } else if rejects.iter().all(|x| !*x) {
            Ok("ok".into())
        } else if rejects[0] && id == 0 && !rejects[1..].iter().any(|x| *x) {
            Err("the combiner refuses the zero identifier".into())
        } else if rejects[0] {
            Ok(format!("MIXED: a verification path accepts a payload the combiner refuses {:?}", rejects))
        } else {
            Err(format!("MIXED: a verification path refuses a payload the combiner accepts {:?}", rejects))
        }
    }
    pub fn dec_share<C: Impl>(s: &SignDecryptionShare<C>, lib: &Lib) -> Result<String, String> {
        let _ = format!("{:?}", s);
        let b = Vec::<u8>::from(s);
        let id = b[0];
        let mut ob = b.clone();
        ob[0] = if id == 1 { 2 } else { 1 };
        ob[1..].copy_from_slice(&Vec::<u8>::from(&lib.sk::<C>(5).public_key()));
        let other = SignDecryptionShare::<C>::try_from(ob.as_slice()).map_err(|e| e.to_string())?;
        let ct = lib.sk::<C>(5).public_key().sign_crypt(SignatureSchemes::Basic, b"hello");
        let _ = ct.decrypt_with_shares(&[s.clone(), other.clone()]);
        let r1 = SignCryptDecryptionKey::<C>::from_shares(&[s.clone(), other]).map(|_| ()).map_err(|e| e.to_string());
        let pks = {
            let mut pb = vec![id];
            pb.extend_from_slice(&Vec::<u8>::from(&lib.sk::<C>(5).public_key()));
            PublicKeyShare::<C>::try_from(pb.as_slice()).map_err(|e| e.to_string())?
        };
        let r2 = s.verify(&pks, &ct).map_err(|e| e.to_string());
        let invalid_payload = matches!(&r2, Err(e) if e.contains("sharing"));
        match (r1, invalid_payload) {
            (Err(e), _) => Err(e),
            (Ok(()), true) => Err("verify reported an invalid share payload".into()),
            (Ok(()), false) => Ok("ok".into()),
        }
    }
    pub fn eg_share<C: Impl>(s: &ElGamalDecryptionShare<C>, lib: &Lib) -> Result<String, String> {
        let _ = format!("{:?}", s);
        let b = Vec::<u8>::from(s);
        let mut ob = b.clone();
        ob[0] = if b[0] == 1 { 2 } else { 1 };
        ob[1..].copy_from_slice(&Vec::<u8>::from(&lib.sk::<C>(5).public_key()));
        let other = ElGamalDecryptionShare::<C>::try_from(ob.as_slice()).map_err(|e| e.to_string())?;
        ElGamalDecryptionKey::<C>::from_shares(&[s.clone(), other]).map(|_| "ok".to_string()).map_err(|e| e.to_string())
    }
    pub fn sk_share<C: Impl>(s: &SecretKeyShare<C>, _lib: &Lib) -> Result<String, String> {
        let _ = format!("{:?}", s);
        let r0 = s.public_key().map(|_| ()).map_err(|e| e.to_string());
        let r1 = s.sign(SignatureSchemes::Basic, b"m").map(|_| ()).map_err(|e| e.to_string());
        let _ = s.sign(SignatureSchemes::MessageAugmentation, b"m");
        let b = Vec::<u8>::from(s);
        let mut ob = b.clone();
        ob[0] = if b[0] == 1 { 2 } else { 1 };
        let other = SecretKeyShare::<C>::try_from(ob.as_slice()).map_err(|e| e.to_string())?;
        let r2 = SecretKey::<C>::combine(&[s.clone(), other]).map(|_| ()).map_err(|e| e.to_string());
        r0.and(r1).and(r2).map(|_| "ok".into())
    }
}

/// the zero test behind every scalar import, over a byte string whose byte-OR is exactly `orv`
fn iszero_vector<C: Impl>(v: &Value, conc: &Conc) -> Outcome {
    let orv = geti(v, "orv") as u8;
    let site = gets(v, "site");
    let checked = cfg!(debug_assertions);
    let want = gets(&v["expect"], if checked { "checked" } else { "plain" });
    // several byte strings with that OR: the byte alone, split over two positions, repeated
    let mut inputs: Vec<[u8; 32]> = vec![];
    let mut a = [0u8; 32];
    a[31] = orv;
    inputs.push(a);
    let mut b = [0u8; 32];
    b[(conc.seed % 31) as usize] = orv;
    inputs.push(b);
    let mut c = [0u8; 32];
    c[5] = orv & 0xf0;
    c[17] = orv & 0x0f;
    c[31] = orv & 0x81;
    if c.iter().fold(0u8, |x, y| x | y) == orv {
        inputs.push(c);
    }
    let mut o = Outcome::pass(json!({}));
    for inp in inputs {
        let got: Result<bool, String> = super::codecs::guard(|| {
            Ok(match site {
                "sk_be" => bool::from(SecretKey::<C>::from_be_bytes(&inp).is_some()),
                "sk_le" => bool::from(SecretKey::<C>::from_le_bytes(&inp).is_some()),
                "sk_try_from" => SecretKey::<C>::try_from(&inp[..]).is_ok(),
                "enum_be" => {
                    let mut e = vec![1u8];
                    e.extend_from_slice(&inp);
                    bool::from(SecretKeyEnum::from_be_bytes(&e).is_some())
                }
                "secret_be" => bool::from(ProofCommitmentSecret::<C>::from_be_bytes(&inp).is_some()),
                _ => bool::from(ProofCommitmentChallenge::<C>::from_le_bytes(&inp).is_some()),
            })
        })
        .and_then(|x| x);
        match got {
            Err(p) => {
                let mut f = Outcome::fail(json!({"abort": p, "orv": orv, "site": site, "checked": checked}), "scalar import aborted (panic) in the zero test");
                f.notes.push("abort".into());
                return f;
            }
            Ok(some) => {
                // values >= r are reduced, never refused, by these importers; only an all-zero input is None
                let g = if some { "Some" } else { "None" };
                if g != want {
                    return Outcome::fail(json!({"got": g, "orv": orv, "site": site}), format!("spec predicts {want} for byte-OR {orv:#x}, import returned {g}"));
                }
            }
        }
        o.extra += 1;
    }
    o
}

/// `T::default()` through serde, the byte conversions and every consumer
fn default_vector<C: Impl>(v: &Value, conc: &Conc, tables: &Tables) -> Outcome {
    let lib = Lib { conc, tables };
    let sk5 = lib.sk::<C>(5);
    let pk5 = sk5.public_key();
    let tname = gets(v, "type");
    let bytes_ok = gets(&v["expect"], "bytes") == "Ok";
    macro_rules! d {
        ($name:expr, $t:ty) => {
            if tname == $name {
                let val: $t = Default::default();
                let mut o = Outcome::pass(json!({}));
                match roundtrip(&val, bytes_ok) {
                    Ok((n, _)) => o.extra += n,
                    Err(e) => return Outcome::fail(json!({"type": tname}), format!("default value: {e}")),
                }
                if <$t as ByteConv>::HAS_BYTES && !bytes_ok {
                    if let Ok(Ok(_)) = guard(|| <$t as ByteConv>::dec(&val.enc())) {
                        return Outcome::fail(json!({"type": tname}), "the byte conversion imports the default (zero) secret");
                    }
                }
                match catch_unwind(AssertUnwindSafe(|| consume_any(&val as &dyn std::any::Any, &lib, &sk5, &pk5))) {
                    Err(_) => {
                        let mut f = Outcome::fail(json!({"type": tname}), "a consumer of the default value aborted (panic)");
                        f.notes.push("abort".into());
                        return f;
                    }
                    Ok(_) => o.extra += 1,
                }
                return o;
            }
        };
    }
    d!("SecretKey", SecretKey<C>);
    d!("SecretKeyEnum", SecretKeyEnum);
    d!("PublicKey", PublicKey<C>);
    d!("MultiPublicKey", MultiPublicKey<C>);
    d!("ProofOfPossession", ProofOfPossession<C>);
    d!("Signature", Signature<C>);
    d!("AggregateSignature", AggregateSignature<C>);
    d!("MultiSignature", MultiSignature<C>);
    d!("ProofCommitment", ProofCommitment<C>);
    d!("ProofCommitmentSecret", ProofCommitmentSecret<C>);
    d!("ProofCommitmentChallenge", ProofCommitmentChallenge<C>);
    d!("ProofOfKnowledge", ProofOfKnowledge<C>);
    d!("ProofOfKnowledgeTimestamp", ProofOfKnowledgeTimestamp<C>);
    d!("SignatureShare", SignatureShare<C>);
    d!("SignCryptCiphertext", SignCryptCiphertext<C>);
    d!("SignCryptDecryptionKey", SignCryptDecryptionKey<C>);
    d!("TimeCryptCiphertext", TimeCryptCiphertext<C>);
    d!("ElGamalCiphertext", ElGamalCiphertext<C>);
    d!("ElGamalProof", ElGamalProof<C>);
    d!("ElGamalDecryptionKey", ElGamalDecryptionKey<C>);
    d!("InnerPointShareG1", InnerPointShareG1);
    d!("InnerPointShareG2", InnerPointShareG2);
    d!("SignatureSchemes", SignatureSchemes);
    d!("Bls12381", Bls12381);
    Outcome::fail(json!({}), format!("no default for {tname}"))
}

fn select_laws<T: subtle::ConditionallySelectable + PartialEq>(a: &T, b: &T, ch: u8) -> Result<u64, String> {
    use subtle::Choice;
    if a == b {
        return Err("harness: the two subjects of a selection are equal".into());
    }
    let want = if ch == 0 { a } else { b };
    let got = T::conditional_select(a, b, Choice::from(ch));
    if &got != want {
        return Err(format!("conditional_select(a, b, {ch}) does not return {}", if ch == 0 { "a" } else { "b" }));
    }
    let mut x = *a;
    x.conditional_assign(b, Choice::from(ch));
    if &x != want {
        return Err(format!("conditional_assign with choice {ch}: wrong value"));
    }
    let (mut p, mut q) = (*a, *b);
    T::conditional_swap(&mut p, &mut q, Choice::from(ch));
    if (ch == 0 && (&p != a || &q != b)) || (ch == 1 && (&p != b || &q != a)) {
        return Err(format!("conditional_swap with choice {ch}: wrong values"));
    }
    if &T::conditional_select(a, a, Choice::from(ch)) != a {
        return Err("conditional_select(a, a, _) is not a".into());
    }
    Ok(4)
}

fn select_vector<C: Impl>(v: &Value, conc: &Conc, tables: &Tables) -> Outcome {
    let lib = Lib { conc, tables };
    let tname = gets(v, "type");
    let ch = geti(v, "choice") as u8;
    let (ma, mb) = (
        Mk { lib: &lib, variant: gets(v, "variant"), vclass: "generic", seed: conc.seed },
        Mk { lib: &lib, variant: gets(v, "variant"), vclass: "generic", seed: conc.seed + 1 },
    );
    macro_rules! sel {
        ($name:expr, $t:ty, $make:expr) => {
            if tname == $name {
                let f: fn(&Mk) -> $t = $make;
                let (a, b) = (f(&ma), f(&mb));
                return match catch_unwind(AssertUnwindSafe(|| select_laws(&a, &b, ch))) {
                    Ok(Ok(n)) => {
                        let mut o = Outcome::pass(json!({}));
                        o.extra += n;
                        o
                    }
                    Ok(Err(e)) => Outcome::fail(json!({"type": tname, "choice": ch}), format!("constant-time selection of {tname}: {e}")),
                    Err(_) => Outcome::fail(json!({"type": tname, "choice": ch}), format!("constant-time selection of two {tname} values of one variant aborted (panic)")),
                };
            }
        };
    }
    sel!("PublicKey", PublicKey<C>, |m: &Mk| PublicKey::<C>(m.pt_k::<C>()));
    sel!("MultiPublicKey", MultiPublicKey<C>, |m: &Mk| MultiPublicKey::<C>(m.pt_k::<C>()));
    sel!("ProofOfPossession", ProofOfPossession<C>, |m: &Mk| ProofOfPossession::<C>(m.pt_s::<C>()));
    sel!("Signature", Signature<C>, |m: &Mk| wrap_sig::<C>(m.variant, m.pt_s::<C>()));
    sel!("AggregateSignature", AggregateSignature<C>, |m: &Mk| match m.variant { "Basic" => AggregateSignature::<C>::Basic(m.pt_s::<C>()), "Aug" => AggregateSignature::MessageAugmentation(m.pt_s::<C>()), _ => AggregateSignature::ProofOfPossession(m.pt_s::<C>()) });
    sel!("MultiSignature", MultiSignature<C>, |m: &Mk| match m.variant { "Basic" => MultiSignature::<C>::Basic(m.pt_s::<C>()), "Aug" => MultiSignature::MessageAugmentation(m.pt_s::<C>()), _ => MultiSignature::ProofOfPossession(m.pt_s::<C>()) });
    sel!("ProofCommitment", ProofCommitment<C>, |m: &Mk| match m.variant { "Basic" => ProofCommitment::<C>::Basic(m.pt_s::<C>()), "Aug" => ProofCommitment::MessageAugmentation(m.pt_s::<C>()), _ => ProofCommitment::ProofOfPossession(m.pt_s::<C>()) });
    sel!("ProofOfKnowledge", ProofOfKnowledge<C>, |m: &Mk| { let (u, v) = (m.pt_s::<C>(), m.pt_s::<C>().double()); match m.variant { "Basic" => ProofOfKnowledge::<C>::Basic { u, v }, "Aug" => ProofOfKnowledge::MessageAugmentation { u, v }, _ => ProofOfKnowledge::ProofOfPossession { u, v } } });
    sel!("ProofOfKnowledgeTimestamp", ProofOfKnowledgeTimestamp<C>, |m: &Mk| { let (u, v) = (m.pt_s::<C>(), m.pt_s::<C>().double()); ProofOfKnowledgeTimestamp::<C> { proof: match m.variant { "Basic" => ProofOfKnowledge::Basic { u, v }, "Aug" => ProofOfKnowledge::MessageAugmentation { u, v }, _ => ProofOfKnowledge::ProofOfPossession { u, v } }, timestamp: 1_700_000_000_000 + m.seed } });
    sel!("SignatureShare", SignatureShare<C>, |m: &Mk| { let mut b = vec![0u8, m.share_id()]; b.extend_from_slice(&enc_s::<C>(&m.pt_s::<C>())); let s = SignatureShare::<C>::try_from(b.as_slice()).expect("share container"); let raw = *s.as_raw_value(); match m.variant { "Basic" => SignatureShare::Basic(raw), "Aug" => SignatureShare::MessageAugmentation(raw), _ => SignatureShare::ProofOfPossession(raw) } });
    sel!("PublicKeyShare", PublicKeyShare<C>, |m: &Mk| mk_pks::<C>(m));
    sel!("ElGamalCiphertext", ElGamalCiphertext<C>, |m: &Mk| ElGamalCiphertext::<C> { c1: m.pt_k::<C>(), c2: m.pt_k::<C>().double() });
    Outcome::fail(json!({}), format!("select: type {tname} is not selectable"))
}

pub fn run<C, R>(v: &Value, conc: &Conc, tables: &Tables, group: &str) -> Outcome
where
    C: Impl,
    R: RefG,
{
    if gets(v, "act") == "Select" {
        return select_vector::<C>(v, conc, tables);
    }
    if gets(v, "act") == "IsZero" {
        return iszero_vector::<C>(v, conc);
    }
    if gets(v, "act") == "Default" {
        return default_vector::<C>(v, conc, tables);
    }
    let lib = Lib { conc, tables };
    let tname = gets(v, "type");
    let mk = Mk { lib: &lib, variant: gets(v, "variant"), vclass: gets(v, "vclass"), seed: conc.seed };
    let sk5 = lib.sk::<C>(5);
    let pk5 = sk5.public_key();
    macro_rules! one {
        ($name:expr, $t:ty, $make:expr) => {
            if tname == $name {
                let f: fn(&Mk) -> $t = $make;
                let val = match catch_unwind(AssertUnwindSafe(|| f(&mk))) {
                    Ok(v) => v,
                    Err(_) => return Outcome::fail(json!({}), format!("cannot build a {} of class {}", $name, mk.vclass)),
                };
                let consume = |x: &$t| -> Result<String, String> { consume_any(x as &dyn std::any::Any, &lib, &sk5, &pk5) };
                return run_subject::<$t>(val, v, group, tables, &consume);
            }
        };
    }
    subjects!(one, C);
    Outcome::fail(json!({}), format!("codec: unknown type {tname}"))
}

/// dispatch to the consumers of the concrete type behind `x`
fn consume_any<C: Impl>(x: &dyn std::any::Any, lib: &Lib, sk5: &SecretKey<C>, pk5: &PublicKey<C>) -> Result<String, String> {
    use consumers::*;
    if let Some(s) = x.downcast_ref::<PublicKeyShare<C>>() {
        return pk_share::<C>(s, lib);
    }
    if let Some(s) = x.downcast_ref::<SignatureShare<C>>() {
        return sig_share::<C>(s, lib);
    }
    if let Some(s) = x.downcast_ref::<SignDecryptionShare<C>>() {
        return dec_share::<C>(s, lib);
    }
    if let Some(s) = x.downcast_ref::<ElGamalDecryptionShare<C>>() {
        return eg_share::<C>(s, lib);
    }
    if let Some(s) = x.downcast_ref::<SecretKeyShare<C>>() {
        return sk_share::<C>(s, lib);
    }
    if let Some(s) = x.downcast_ref::<SecretKey<C>>() {
        let _ = (fmt(s), s.public_key(), s.sign(SignatureSchemes::Basic, b"m").is_ok(), s.proof_of_possession().is_ok(), s.to_be_bytes(), s.split(2, 3).is_ok());
        return Ok("ok".into());
    }
    if let Some(s) = x.downcast_ref::<SecretKeyEnum>() {
        let _ = (fmt(s), s.to_be_bytes(), s.to_le_bytes());
        return Ok("ok".into());
    }
    if let Some(s) = x.downcast_ref::<PublicKey<C>>() {
        let sig = sk5.sign(SignatureSchemes::Basic, b"m").unwrap();
        let _ = (fmt(s), format!("{}", s), sig.verify(s, b"m").is_ok(), s.sign_crypt(SignatureSchemes::Basic, b"m").is_valid(), s.encrypt_time_lock(SignatureSchemes::Basic, b"m", b"id").is_ok(),
                 s.encrypt_key_el_gamal(sk5).is_ok(), s.encrypt_key_el_gamal_with_proof(sk5).is_ok(), sk5.proof_of_possession().unwrap().verify(*s).is_ok(),
                 MultiPublicKey::<C>::from_public_keys(&[*s, *pk5]));
        return Ok("ok".into());
    }
    if let Some(s) = x.downcast_ref::<MultiPublicKey<C>>() {
        let ms = MultiSignature::<C>::from_signatures(&[sk5.sign(SignatureSchemes::Basic, b"m").unwrap(), sk5.sign(SignatureSchemes::Basic, b"m").unwrap()]).unwrap();
        let _ = (fmt(s), ms.verify(*s, b"m").is_ok());
        return Ok("ok".into());
    }
    if let Some(s) = x.downcast_ref::<ProofOfPossession<C>>() {
        let _ = (fmt(s), s.verify(*pk5).is_ok());
        return Ok("ok".into());
    }
    if let Some(s) = x.downcast_ref::<Signature<C>>() {
        let ct = pk5.encrypt_time_lock(SignatureSchemes::Basic, b"m", b"id").unwrap();
        let _ = (fmt(s), format!("{}", s), s.verify(pk5, b"m").is_ok(), ct.decrypt(s).is_some(), ProofCommitment::<C>::generate(b"m", *s).is_ok(), ProofOfKnowledgeTimestamp::<C>::generate(b"m", *s).is_ok(),
                 AggregateSignature::<C>::from_signatures(&[*s, *s]).is_ok(), MultiSignature::<C>::from_signatures(&[*s, *s]).is_ok());
        return Ok("ok".into());
    }
    if let Some(s) = x.downcast_ref::<AggregateSignature<C>>() {
        let _ = (fmt(s), s.verify(&[(*pk5, b"a".to_vec()), (*pk5, b"b".to_vec())]).is_ok(), s.verify::<Vec<u8>>(&[]).is_ok());
        return Ok("ok".into());
    }
    if let Some(s) = x.downcast_ref::<MultiSignature<C>>() {
        let _ = (fmt(s), s.verify(MultiPublicKey::<C>::from_public_keys(&[*pk5]), b"m").is_ok());
        return Ok("ok".into());
    }
    if let Some(s) = x.downcast_ref::<ProofCommitment<C>>() {
        let sig = sk5.sign(SignatureSchemes::Basic, b"m").unwrap();
        let _ = (fmt(s), (*s).finalize(ProofCommitmentSecret::<C>(sk5.0), ProofCommitmentChallenge::<C>(sk5.0), sig).is_ok());
        return Ok("ok".into());
    }
    if let Some(s) = x.downcast_ref::<ProofCommitmentSecret<C>>() {
        let _ = (fmt(s), s.to_be_bytes(), s.to_le_bytes());
        return Ok("ok".into());
    }
    if let Some(s) = x.downcast_ref::<ProofCommitmentChallenge<C>>() {
        let _ = (fmt(s), s.to_be_bytes(), s.to_le_bytes());
        return Ok("ok".into());
    }
    if let Some(s) = x.downcast_ref::<ProofOfKnowledge<C>>() {
        let _ = (fmt(s), format!("{}", s), s.verify(*pk5, b"m", ProofCommitmentChallenge::<C>(sk5.0)).is_ok());
        return Ok("ok".into());
    }
    if let Some(s) = x.downcast_ref::<ProofOfKnowledgeTimestamp<C>>() {
        let _ = (fmt(s), format!("{}", s), s.verify(*pk5, b"m", None).is_ok(), s.verify(*pk5, b"m", Some(0)).is_ok(), s.verify(*pk5, b"m", Some(u64::MAX)).is_ok(), s.verify(*pk5, b"m", Some(1000)).is_ok());
        return Ok("ok".into());
    }
    if let Some(s) = x.downcast_ref::<SignCryptCiphertext<C>>() {
        let sh = crate::threshold::deal::<C>(sk5, 2, 3, 1).unwrap();
        let ds: Vec<SignDecryptionShare<C>> = sh.iter().filter_map(|x| s.create_decryption_share(x).ok()).collect();
        let _ = (fmt(s), format!("{}", s), s.is_valid(), s.decrypt(sk5).is_some(), sk5.sign_decryption_key::<&[u8]>(s).decrypt(s).is_some(), s.decrypt_with_shares(&ds).is_some(), s.decrypt_with_shares(&ds[..0]).is_some());
        return Ok("ok".into());
    }
    if let Some(s) = x.downcast_ref::<SignCryptDecryptionKey<C>>() {
        let ct = pk5.sign_crypt(SignatureSchemes::Basic, b"m");
        let _ = (fmt(s), s.decrypt(&ct).is_some());
        return Ok("ok".into());
    }
    if let Some(s) = x.downcast_ref::<TimeCryptCiphertext<C>>() {
        let _ = (fmt(s), s.decrypt(&sk5.sign(SignatureSchemes::Basic, b"id").unwrap()).is_some(), s.decrypt(&sk5.sign(SignatureSchemes::MessageAugmentation, b"id").unwrap()).is_some(),
                 s.decrypt(&sk5.sign(SignatureSchemes::ProofOfPossession, b"id").unwrap()).is_some(), s.decrypt(&Signature::<C>::default()).is_some());
        return Ok("ok".into());
    }
    if let Some(s) = x.downcast_ref::<ElGamalCiphertext<C>>() {
        let _ = (fmt(s), format!("{}", s), s.decrypt(sk5), *s + *s);
        return Ok("ok".into());
    }
    if let Some(s) = x.downcast_ref::<ElGamalProof<C>>() {
        let _ = (fmt(s), format!("{}", s), s.verify(*pk5).is_ok(), s.verify_and_decrypt(sk5).is_ok());
        return Ok("ok".into());
    }
    if let Some(s) = x.downcast_ref::<ElGamalDecryptionKey<C>>() {
        let ct = pk5.encrypt_key_el_gamal(sk5).unwrap();
        let _ = s.decrypt(&ct);
        return Ok("ok".into());
    }
    if let Some(s) = x.downcast_ref::<InnerPointShareG1>() {
        use blsful::vsss_rs::{combine_shares_group, Share};
        let _ = (fmt(s), format!("{} {:x} {:X}", s, s, s));
        let mut o = *s;
        o.0[0] = if s.0[0] == 1 { 2 } else { 1 };
        o.0[1..].copy_from_slice(&points::class_bytes(48, "identity", &[]));
        s.as_group_element::<blsful::inner_types::G1Projective>().map_err(|e| format!("{e:?}"))?;
        return combine_shares_group::<blsful::inner_types::G1Projective, u8, InnerPointShareG1>(&[*s, o]).map(|_| "ok".to_string()).map_err(|e| format!("{e:?}"));
    }
    if let Some(s) = x.downcast_ref::<InnerPointShareG2>() {
        use blsful::vsss_rs::{combine_shares_group, Share};
        let _ = (fmt(s), format!("{} {:x} {:X}", s, s, s));
        let mut o = *s;
        o.0[0] = if s.0[0] == 1 { 2 } else { 1 };
        o.0[1..].copy_from_slice(&points::class_bytes(96, "identity", &[]));
        s.as_group_element::<blsful::inner_types::G2Projective>().map_err(|e| format!("{e:?}"))?;
        return combine_shares_group::<blsful::inner_types::G2Projective, u8, InnerPointShareG2>(&[*s, o]).map(|_| "ok".to_string()).map_err(|e| format!("{e:?}"));
    }
    if let Some(s) = x.downcast_ref::<SignatureSchemes>() {
        let _ = (fmt(s), format!("{}", s));
        return Ok("ok".into());
    }
    if let Some(s) = x.downcast_ref::<Bls12381>() {
        let _ = (fmt(s), format!("{}", s), u8::from(s));
        return Ok("ok".into());
    }
    Ok("no consumer".into())
}

#[allow(dead_code)]
fn _z<C: BlsSignatureImpl>() -> Sc<C> {
    Sc::<C>::ZERO
}

// ------------------------------------------------------------------ fuzz-style driver (implementation -> spec)
use rand::{Rng, SeedableRng};
use std::collections::BTreeMap;

/// independent judgement of a decoded value: are all its (eagerly validated) point fields valid,
/// and is a secret-like scalar zero?  Works on the value's own serde_bare re-encoding + spec layout.
fn judge_decoded<T: Serialize>(x: &T, layout: &Value, group: &str) -> (String, bool) {
    let enc = match serde_bare::to_vec(x) {
        Ok(e) => e,
        Err(_) => return ("unencodable".into(), false),
    };
    let fields = match locate(layout, group, &enc) {
        Ok(f) => f,
        Err(_) => return ("layout-mismatch".into(), false),
    };
    let mut pts = "-".to_string();
    let mut zero = false;
    for f in fields {
        if ["pointS", "pointK", "point48", "point96"].contains(&f.kind.as_str()) {
            let c = points::classify(&enc[f.start..f.start + f.len]);
            if c == "invalid" {
                pts = "invalid".into();
            } else if pts == "-" {
                pts = "valid".into();
            }
        }
        if f.kind == "scalar" && enc[f.start..f.start + f.len].iter().all(|b| *b == 0) {
            zero = true;
        }
    }
    (pts, zero)
}

fn fuzz_subject<T>(val: T, tname: &str, group: &str, tables: &Tables, rng: &mut rand_chacha::ChaCha8Rng, iters: usize,
                   counts: &mut BTreeMap<(String, String, String, String, String, bool), u64>)
where
    T: ByteConv + Serialize + DeserializeOwned + PartialEq + Clone,
{
    let layout = &tables.0["layout"][tname];
    let bare = serde_bare::to_vec(&val).unwrap();
    let js = serde_json::to_string(&val).unwrap();
    let bytes = if T::HAS_BYTES { val.enc() } else { vec![] };
    for it in 0..iters {
        for codec in ["bytes", "bare", "json"] {
            if codec == "bytes" && !T::HAS_BYTES {
                continue;
            }
            let base: Vec<u8> = match codec {
                "bytes" => bytes.clone(),
                "bare" => bare.clone(),
                _ => js.as_bytes().to_vec(),
            };
            // input classes: random of a chosen length / bit-flipped valid / byte-replaced valid / spliced / truncated
            let (class, input): (&str, Vec<u8>) = match it % 6 {
                0 => {
                    let l = [0usize, 1, base.len().saturating_sub(1), base.len(), base.len() + 1, base.len() * 2][rng.gen_range(0..6)];
                    let mut b = vec![0u8; l];
                    rng.fill(&mut b[..]);
                    ("random", b)
                }
                1 => {
                    let mut b = base.clone();
                    if !b.is_empty() {
                        for _ in 0..rng.gen_range(1..4) {
                            let i = rng.gen_range(0..b.len() * 8);
                            b[i / 8] ^= 1 << (i % 8);
                        }
                    }
                    ("bitflip", b)
                }
                2 => {
                    let mut b = base.clone();
                    if !b.is_empty() {
                        for _ in 0..rng.gen_range(1..4) {
                            let i = rng.gen_range(0..b.len());
                            b[i] = rng.gen();
                        }
                    }
                    ("bytereplace", b)
                }
                3 => {
                    let mut b = base.clone();
                    let cut = if b.is_empty() { 0 } else { rng.gen_range(0..b.len()) };
                    b.truncate(cut);
                    ("truncated", b)
                }
                4 => {
                    let mut b = base.clone();
                    let n = rng.gen_range(1..9);
                    for _ in 0..n {
                        // trailing whitespace is legal JSON: extend with non-blank bytes only
                        let x: u8 = rng.gen();
                        b.push(if codec == "json" && [b' ', b'\n', b'\t', b'\r'].contains(&x) { b'x' } else { x });
                    }
                    ("extended", b)
                }
                _ => {
                    // splice: a run of 0x00 / 0xff / 0x80 bytes somewhere
                    let mut b = base.clone();
                    if !b.is_empty() {
                        let i = rng.gen_range(0..b.len());
                        let l = rng.gen_range(1..(b.len() - i).min(40) + 1);
                        let fill = [0x00u8, 0xff, 0x80, 0x7f][rng.gen_range(0..4)];
                        for x in &mut b[i..i + l] {
                            *x = fill;
                        }
                    }
                    ("splice", b)
                }
            };
            crate::conc::watch::enter(format!("{tname}/{codec}/{class}: {}", hex::encode(&input)));
            let (dec, decoded): (Dec, Option<T>) = match codec {
                "bytes" => decode_bytes(&val, &input),
                "bare" => decode_bare(&val, &input),
                _ => match std::str::from_utf8(&input) {
                    Ok(st) => decode_json(&val, st),
                    // not UTF-8: the byte-oriented front ends still see it
                    Err(_) => agree(
                        dec_of(&val, guard(|| serde_json::from_slice::<T>(&input).map_err(|e| e.to_string()))),
                        vec![("serde_json::from_reader", dec_of(&val, guard(|| serde_json::from_reader::<_, T>(std::io::Cursor::new(input.clone())).map_err(|e| e.to_string()))))],
                    ),
                },
            };
            crate::conc::watch::leave();
            let (pts, zero) = match &decoded {
                Some(x) => judge_decoded(x, layout, group),
                None => ("-".to_string(), false),
            };
            *counts.entry((tname.to_string(), codec.to_string(), class.to_string(), dec.class().to_string(), pts, zero)).or_insert(0) += 1;
        }
    }
}

pub fn drive_fuzz<C: Impl>(log: &mut crate::record::Log, seed: u64, iters: usize, tables: &Tables, group: &str) {
    let conc = Conc { atom_len: 5, seed, alphabet: 0 };
    let lib = Lib { conc: &conc, tables };
    let mut rng = rand_chacha::ChaCha8Rng::seed_from_u64(seed ^ 0xf022);
    let mut counts = BTreeMap::new();
    let variants_of = |t: &str| -> Vec<&'static str> {
        match t {
            "SecretKeyEnum" | "Bls12381" => vec!["G1", "G2"],
            "Signature" | "AggregateSignature" | "MultiSignature" | "ProofCommitment" | "ProofOfKnowledge" | "ProofOfKnowledgeTimestamp" | "SignatureShare"
            | "SignCryptCiphertext" | "TimeCryptCiphertext" | "SignatureSchemes" => vec!["Basic", "Aug", "Pop"],
            _ => vec!["-"],
        }
    };
    macro_rules! one {
        ($name:expr, $t:ty, $make:expr) => {
            for variant in variants_of($name) {
                let mk = Mk { lib: &lib, variant, vclass: "generic", seed };
                let f: fn(&Mk) -> $t = $make;
                let val = f(&mk);
                fuzz_subject::<$t>(val, $name, group, tables, &mut rng, iters, &mut counts);
            }
        };
    }
    subjects!(one, C);
    log.ev(json!({"ev": "Reset", "group": group}));
    // C15: random values of every type through every codec and back
    let mut rt: BTreeMap<(String, String, String), u64> = BTreeMap::new();
    macro_rules! two {
        ($name:expr, $t:ty, $make:expr) => {
            for variant in variants_of($name) {
                for i in 0..(iters / 10).max(3) {
                    let vclass = ["generic", "generic", "generic", "identity", "scalar_rm1", "empty", "large", "idany"][i % 8];
                    let mk = Mk { lib: &lib, variant, vclass, seed: seed.wrapping_mul(31).wrapping_add(i as u64) };
                    let f: fn(&Mk) -> $t = $make;
                    let val = f(&mk);
                    let r = match roundtrip(&val, true) {
                        Ok(_) => "same".to_string(),
                        Err(e) => format!("differs: {e}"),
                    };
                    *rt.entry(($name.to_string(), variant.to_string(), r)).or_insert(0) += 1;
                }
            }
        };
    }
    subjects!(two, C);
    for ((t, variant, res), n) in rt {
        log.ev(json!({"ev": "RoundTrip", "type": t, "variant": variant, "res": res, "count": n, "group": group}));
    }
    for ((t, codec, class, res, pts, zero), n) in counts {
        log.ev(json!({"ev": "Decode", "type": t, "codec": codec, "class": class, "res": res, "points": pts, "zero": zero, "count": n, "group": group}));
    }
}
