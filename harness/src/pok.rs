//! Replay of Pok vectors (spec/Pok.tla).  The virtual clock hook (blsful::verif_hooks, compiled
//! with --cfg blsful_verif) lets every delay class be visited exactly and without sleeping.
use crate::conc::*;
use crate::refeval::*;
use crate::signet::*;
use blsful::inner_types::{Field, Group};
use blsful::*;
use bls12_381_plus::group::Group as RGroup;
use bls12_381_plus::Scalar as RS;
use serde_json::{json, Value};

pub const BASE_MS: u64 = 1_700_000_000_000;

fn parts<C: BlsSignatureImpl>(p: &ProofOfKnowledge<C>) -> (&'static str, <C as Pairing>::Signature, <C as Pairing>::Signature) {
    match p {
        ProofOfKnowledge::Basic { u, v } => ("Basic", *u, *v),
        ProofOfKnowledge::MessageAugmentation { u, v } => ("Aug", *u, *v),
        ProofOfKnowledge::ProofOfPossession { u, v } => ("Pop", *u, *v),
    }
}
fn mk<C: BlsSignatureImpl>(label: &str, u: <C as Pairing>::Signature, v: <C as Pairing>::Signature) -> ProofOfKnowledge<C> {
    match label {
        "Basic" => ProofOfKnowledge::Basic { u, v },
        "Aug" => ProofOfKnowledge::MessageAugmentation { u, v },
        _ => ProofOfKnowledge::ProofOfPossession { u, v },
    }
}

/// reference verification of the interactive proof (commitment hashes what the spec table says)
pub fn ref_verify<R: RefG>(rf: &RefCtx, u: &[u8], v: &[u8], pk: &R::K, y: &RS, label: &str, msg: &[u8]) -> bool {
    let (u, v) = match (R::dec_s(u), R::dec_s(v)) {
        (Some(u), Some(v)) => (u, v),
        _ => return false,
    };
    if bool::from(u.is_identity()) || bool::from(v.is_identity()) || bool::from(pk.is_identity()) || is_zero_scalar(y) {
        return false;
    }
    let (tag, pre) = rf.scheme_tag(label);
    let hi = rf.hash_input::<R>(&pre, pk, msg);
    let h = R::hash_s(&hi, &rf.tables.tag(R::NAME, &tag));
    R::pair(&[(v, R::K::generator()), (u + h * *y, *pk)]) == bls12_381_plus::Gt::identity()
}
/// y = HKDF(POK salt, enc(u) || LE64(t))
pub fn ref_ts_y(rf: &RefCtx, u_bytes: &[u8], t: u64) -> RS {
    let mut ikm = u_bytes.to_vec();
    ikm.extend_from_slice(&t.to_le_bytes());
    hkdf_scalar(&rf.tables.salt("POK"), &ikm, rf.tables.keygen_l())
}

pub fn run<C, R>(v: &Value, conc: &Conc, tables: &Tables) -> Outcome
where
    C: BlsSignatureImpl + PartialEq + Eq + std::fmt::Debug + Clone,
    R: RefG,
{
    let lib = Lib { conc, tables };
    let rf = RefCtx { conc, tables };
    let k = geti(v, "k");
    let scheme = gets(v, "scheme");
    let sk = lib.sk::<C>(k);
    let pk = sk.public_key();
    let pert = gets(v, "pert");
    let msg = if pert == "pop_as_sig" { enc_k::<C>(&pk.0) } else { lib.msg::<C>(&v["msg"]) };
    let sig = if pert == "pop_as_sig" {
        let p = match sk.proof_of_possession() {
            Ok(p) => p.0,
            Err(e) => return Outcome::fail(json!({}), format!("pop: {e}")),
        };
        match scheme {
            "Basic" => Signature::<C>::Basic(p),
            "Aug" => Signature::<C>::MessageAugmentation(p),
            _ => Signature::<C>::ProofOfPossession(p),
        }
    } else {
        match sk.sign(scheme_of(scheme), &msg) {
            Ok(s) => s,
            Err(e) => return Outcome::fail(json!({}), format!("sign: {e}")),
        }
    };
    let pk2 = match pert {
        "pk_other" => lib.sk::<C>(geti(v, "k2")).public_key(),
        "pk_neg" => PublicKey::<C>(-pk.0),
        "pk_id" => PublicKey::<C>(<C as Pairing>::PublicKey::identity()),
        _ => pk,
    };
    let msg2 = if pert == "msg" { lib.msg::<C>(&v["msg2"]) } else { msg.clone() };
    let g = <C as Pairing>::Signature::generator();
    let want = gets(&v["expect"], "res");
    match gets(v, "act") {
        "Pok" => {
            let (comm, x) = match ProofCommitment::<C>::generate(&msg, sig) {
                Ok(c) => c,
                Err(e) => return Outcome::fail(json!({}), format!("commit: {e}")),
            };
            let y = match gets(v, "y") {
                "bytes" => {
                    let mut b = [0u8; 32];
                    b[31] = 3;
                    Option::<ProofCommitmentChallenge<C>>::from(ProofCommitmentChallenge::<C>::from_be_bytes(&b)).expect("challenge from bytes")
                }
                "hash" => ProofCommitmentChallenge::<C>::from_hash(b"verif challenge seed"),
                "random" => ProofCommitmentChallenge::<C>::new(),
                _ => ProofCommitmentChallenge::<C>(Sc::<C>::ZERO),
            };
            // the facade constructors are the same functions
            if gets(v, "y") == "hash" {
                use rand::SeedableRng;
                if BlsSignature::<C>::proof_challenge_from_hash(b"verif challenge seed").to_be_bytes() != y.to_be_bytes() {
                    return Outcome::fail(json!({"path": "facade"}), "BlsSignature::proof_challenge_from_hash and ProofCommitmentChallenge::from_hash disagree");
                }
                let a = BlsSignature::<C>::random_proof_challenge(rand_chacha::ChaCha8Rng::seed_from_u64(11));
                let b = ProofCommitmentChallenge::<C>::random(rand_chacha::ChaCha8Rng::seed_from_u64(11));
                if a.to_be_bytes() != b.to_be_bytes() {
                    return Outcome::fail(json!({"path": "facade"}), "BlsSignature::random_proof_challenge and ProofCommitmentChallenge::random disagree on one generator state");
                }
            }
            let f = comm.finalize(x, y.clone(), sig);
            let fgot = if f.is_ok() { "Ok" } else { "Err" };
            if fgot != gets(&v["expect"], "finalize") {
                return Outcome::fail(json!({"finalize": fgot, "scheme": scheme}), format!("spec predicts finalize {}, library returned {fgot}", gets(&v["expect"], "finalize")));
            }
            let proof = match f {
                Ok(p) => p,
                Err(_) => return Outcome::pass(json!({"finalize": "Err"})),
            };
            // the genuine proof is verified first (same thread), then a refused one, then the perturbed one
            let _ = proof.verify(pk, &msg, y.clone()).is_ok();
            let _ = proof.verify(pk, b"another, longer message verified before the judged call", y.clone()).is_ok();
            let (label, u, vv) = parts::<C>(&proof);
            let id = <C as Pairing>::Signature::identity();
            let (u2, v2) = match pert {
                "u_add" => (u + g, vv),
                "u_neg" => (-u, vv),
                "u_id" => (id, vv),
                "v_add" => (u, vv + g),
                "v_neg" => (u, -vv),
                "v_id" => (u, id),
                "uv_id" => (id, id),
                "forge_v_id" => {
                    let h = <C as HashToPoint>::hash_to_point(&msg, crate::signcrypt::dst_of::<C>(scheme_of(scheme)));
                    (-(h * y.0), id)
                }
                _ => (u, vv),
            };
            let label2 = if pert == "label" { gets(v, "scheme2") } else { label };
            let y2 = match pert {
                "y_other" => ProofCommitmentChallenge::<C>(y.0 + Sc::<C>::ONE),
                "y_zero" => ProofCommitmentChallenge::<C>(Sc::<C>::ZERO),
                _ => y,
            };
            let p2 = mk::<C>(label2, u2, v2);
            let r = p2.verify(pk2, &msg2, y2.clone());
            let got = if r.is_ok() { "Ok" } else { "Err" };
            if got != want {
                return Outcome::fail(json!({"res": got, "scheme": scheme, "pert": pert}), format!("spec predicts {want}, ProofOfKnowledge::verify returned {got}"));
            }
            let mut o = Outcome::pass(json!({"res": got}));
            // the same tuple through the trait-level entry point (BlsSignatureProof::verify with the scheme's tag)
            {
                let t = <C as BlsSignatureProof>::verify(u2, v2, pk2.0, y2.0, &msg2, crate::paths::dst::<C>(label2));
                let tg = if t.is_ok() { "Ok" } else { "Err" };
                if tg != want {
                    return Outcome::fail(json!({"path": "trait", "trait": tg, "struct": got, "pert": pert}), format!("spec predicts {want}, the trait-level BlsSignatureProof::verify returned {tg}"));
                }
                o.extra += 1;
            }
            // independent verification of the same tuple: compares the library with the documented equation
            // (for MessageAugmentation the library hashes the plain message; the reference follows the spec table)
            if scheme != "Aug" && label2 != "Aug" {
                let ry = crate::elgamal::rs_from_be(&y2.to_be_bytes()).unwrap_or(RS::from(0u64));
                let rpk = R::dec_k(&enc_k::<C>(&pk2.0)).unwrap();
                let rv = ref_verify::<R>(&rf, &enc_s::<C>(&u2), &enc_s::<C>(&v2), &rpk, &ry, label2, &msg2);
                if rv != r.is_ok() {
                    return Outcome::fail(json!({"lib": got, "ref": rv}), "proof verdict differs from the independent implementation");
                }
                o.extra += 1;
            }
            o
        }
        "PokReuse" => {
            // one commitment answered for two challenges: (v1 - v2) / (y2 - y1) is the signature
            let (comm, x) = match ProofCommitment::<C>::generate(&msg, sig) {
                Ok(c) => c,
                Err(e) => return Outcome::fail(json!({}), format!("commit: {e}")),
            };
            let x2: ProofCommitmentSecret<C> = match ProofCommitmentSecret::<C>::try_from(Vec::<u8>::from(&x).as_slice()) {
                Ok(s) => s,
                Err(e) => return Outcome::fail(json!({}), format!("commitment secret does not survive its byte form: {e}")),
            };
            let ych = |n: u8| {
                let mut b = [0u8; 32];
                b[31] = n;
                Option::<ProofCommitmentChallenge<C>>::from(ProofCommitmentChallenge::<C>::from_be_bytes(&b)).expect("challenge from bytes")
            };
            let (y1, y2) = (ych(geti(v, "y1") as u8), ych(geti(v, "y2") as u8));
            let (p1, p2) = match (comm.clone().finalize(x, y1.clone(), sig), comm.finalize(x2, y2.clone(), sig)) {
                (Ok(a), Ok(b)) => (a, b),
                _ => return Outcome::fail(json!({}), "finalize refused an honest commitment"),
            };
            let (_, _, v1) = parts::<C>(&p1);
            let (_, _, v2) = parts::<C>(&p2);
            let d = (y2.0 - y1.0).invert();
            if bool::from(d.is_none()) {
                return Outcome::fail(json!({}), "harness: equal challenges");
            }
            let ext = (v1 - v2) * d.unwrap();
            let same = enc_s::<C>(&ext) == enc_s::<C>(sig.as_raw_value());
            if same != getb(&v["expect"], "extracted") {
                return Outcome::fail(json!({"extracted": same}), "two responses under one commitment: (v1 - v2)/(y2 - y1) is not the signature, the proof is not -(x + y) sig");
            }
            let mut o = Outcome::pass(json!({"extracted": same}));
            o.extra += 1;
            o
        }
        "PokTs" => {
            // the prover's clock stands `genfrac` microseconds past the millisecond: the stamp is the truncated reading
            let genfrac = v.get("genfrac").and_then(|x| x.as_u64()).unwrap_or(0);
            let verfrac = v.get("verfrac").and_then(|x| x.as_u64()).unwrap_or(0);
            blsful::verif_hooks::set_virtual_now_us(Some(BASE_MS * 1000 + genfrac));
            // the prover's clock moves on by a millisecond with every reading: the stamp and the instant bound into
            // the challenge are one reading, so nothing changes for a function that reads the clock once
            blsful::verif_hooks::set_virtual_tick_us(1000);
            let gen = ProofOfKnowledgeTimestamp::<C>::generate(&msg, sig);
            blsful::verif_hooks::set_virtual_tick_us(0);
            let mut p = match gen {
                Ok(p) => p,
                Err(e) => {
                    blsful::verif_hooks::set_virtual_now_ms(None);
                    return Outcome::fail(json!({}), format!("generate: {e}"));
                }
            };
            if p.timestamp != BASE_MS {
                blsful::verif_hooks::set_virtual_now_ms(None);
                return Outcome::fail(json!({"timestamp": p.timestamp}), "the proof is not stamped with the prover's clock in milliseconds");
            }
            // the genuine proof is verified first, without a timeout (same thread, same instant), then a refused one
            let _ = p.verify(pk, &msg, None).is_ok();
            let _ = p.verify(pk, b"another, longer message verified before the judged call", Some(0)).is_ok();
            let (label, u, vv) = parts::<C>(&p.proof);
            let id = <C as Pairing>::Signature::identity();
            let (u2, v2) = match pert {
                "u_add" => (u + g, vv),
                "u_id" => (id, vv),
                "v_add" => (u, vv + g),
                "v_neg" => (u, -vv),
                "v_id" => (u, id),
                _ => (u, vv),
            };
            let (u2, v2) = if pert == "cross_forge" {
                // built from public trait functions only: a challenge value for some other commitment at the same
                // instant, the holder's signature under `scheme`, and the two hash points
                use blsful::inner_types::Field;
                let y0 = <C as BlsSignatureProof>::compute_y(g * Sc::<C>::from(77u64), BASE_MS);
                let x = Sc::<C>::from(123_456_789u64);
                let hs = <C as HashToPoint>::hash_to_point(&msg, crate::signcrypt::dst_of::<C>(scheme_of(scheme)));
                let ho = <C as HashToPoint>::hash_to_point(&msg, crate::signcrypt::dst_of::<C>(scheme_of(gets(v, "scheme2"))));
                let _ = Sc::<C>::ZERO;
                (hs * (x + y0) - ho * y0, -(*sig.as_raw_value() * (x + y0)))
            } else {
                (u2, v2)
            };
            let label2 = if pert == "label" || pert == "cross_forge" { gets(v, "scheme2") } else { label };
            p.proof = mk::<C>(label2, u2, v2);
            p.timestamp = match pert {
                "ts_past" => BASE_MS - 10,
                "ts_future" => BASE_MS + 100_000,
                "ts_zero" => 0,
                "ts_max" => u64::MAX,
                _ => BASE_MS,
            };
            let delay = geti(v, "delay") as u64;
            let tau = geti(v, "tau");
            // the model's largest timeout stands for u64::MAX (and one below it)
            let tau_of = |t: i64| -> Option<u64> { if t < 0 { None } else if t >= 2_000_000_000 { Some(u64::MAX) } else { Some(t as u64) } };
            blsful::verif_hooks::set_virtual_now_us(Some((BASE_MS + delay) * 1000 + verfrac));
            let r = std::panic::catch_unwind(std::panic::AssertUnwindSafe(|| p.verify(pk2, &msg2, tau_of(tau))));
            // the same call through the trait-level entry point, at the same instant
            let ts2 = p.timestamp;
            let rt = std::panic::catch_unwind(std::panic::AssertUnwindSafe(|| {
                <C as BlsSignatureProof>::verify_timestamp_proof(u2, v2, pk2.0, ts2, tau_of(tau), &msg2, crate::paths::dst::<C>(label2))
            }));
            blsful::verif_hooks::set_virtual_now_ms(None);
            let r = match r {
                Ok(r) => r,
                Err(_) => {
                    let mut o = Outcome::fail(json!({"abort": true, "pert": pert, "tau": tau}), "timestamp proof verification aborted (panic)");
                    o.notes.push("abort".into());
                    return o;
                }
            };
            let got = if r.is_ok() { "Ok" } else { "Err" };
            if got != want {
                return Outcome::fail(json!({"res": got, "scheme": scheme, "pert": pert, "delay": delay, "tau": tau}), format!("spec predicts {want}, ProofOfKnowledgeTimestamp::verify returned {got}"));
            }
            let mut o = Outcome::pass(json!({"res": got}));
            match rt {
                Ok(t) => {
                    let tg = if t.is_ok() { "Ok" } else { "Err" };
                    if tg != want {
                        return Outcome::fail(json!({"path": "trait", "trait": tg, "struct": got, "pert": pert, "delay": delay, "tau": tau}), format!("spec predicts {want}, the trait-level verify_timestamp_proof returned {tg}"));
                    }
                    o.extra += 1;
                }
                Err(_) => {
                    let mut o = Outcome::fail(json!({"abort": true, "path": "trait", "pert": pert, "tau": tau}), "trait-level timestamp proof verification aborted (panic)");
                    o.notes.push("abort".into());
                    return o;
                }
            }
            if pert == "none" && scheme != "Aug" {
                // the challenge is the documented derivation: the reference recomputes it and verifies
                let ry = ref_ts_y(&rf, &enc_s::<C>(&u), BASE_MS);
                let rpk = R::dec_k(&enc_k::<C>(&pk.0)).unwrap();
                if !ref_verify::<R>(&rf, &enc_s::<C>(&u), &enc_s::<C>(&vv), &rpk, &ry, label, &msg) {
                    return Outcome::fail(json!({}), "the reference (y = HKDF(POK salt, enc(u) || LE64(t))) rejects the library's timestamp proof");
                }
                o.extra += 1;
            }
            o
        }
        x => Outcome::fail(json!({}), format!("pok: unknown act {x}")),
    }
}
