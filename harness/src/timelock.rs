//! Replay of TimeLock vectors (spec/TimeLock.tla); the evaluator opens every ciphertext
//! independently from the documented construction.
use crate::conc::*;
use crate::refeval::*;
use crate::signcrypt::{msg_of_len, shake_mask};
use crate::signet::*;
use crate::threshold::deal;
use blsful::inner_types::{Group, GroupEncoding};
use blsful::*;
use bls12_381_plus::group::Group as RGroup;
use rand::{Rng, SeedableRng};
use rand_chacha::ChaCha8Rng;
use serde_json::{json, Value};
use sha2::{Digest, Sha256};

/// reference open: K' = e(sig, U); alpha' = SHA256(K') xor V; parse(XOF(alpha') xor W); FO re-check
pub fn ref_open<R: RefG>(rf: &RefCtx, u: &[u8], v: &[u8; 32], w: &[u8], sig: &[u8], label_ok: bool) -> Option<Vec<u8>> {
    let (u, s) = match (R::dec_k(u), R::dec_s(sig)) {
        (Some(u), Some(s)) => (u, s),
        _ => return None,
    };
    if !label_ok || bool::from(u.is_identity()) || bool::from(s.is_identity()) {
        return None;
    }
    let k = R::pair(&[(s, u)]);
    let hk = Sha256::digest(k.to_bytes());
    let alpha: Vec<u8> = v.iter().zip(hk.iter()).map(|(a, b)| a ^ b).collect();
    let mask = shake_mask(&alpha, w.len());
    let plain: Vec<u8> = w.iter().zip(mask.iter()).map(|(a, b)| a ^ b).collect();
    // documented parse: an unterminated prefix means the empty message, an overrun means nothing
    let msg = match leb_peek(&plain) {
        None => vec![],
        Some((used, n)) => {
            // only the canonical (shortest) encoding of the length is accepted
            if n <= (plain.len() - used) as u128 && leb128(n as u64) == plain[..used] {
                plain[used..used + n as usize].to_vec()
            } else {
                return None;
            }
        }
    };
    let mut ikm = alpha.clone();
    ikm.extend_from_slice(&Sha256::digest(&msg));
    let r = hkdf_scalar(&rf.tables.salt("TIMELOCK"), &ikm, rf.tables.keygen_l());
    if R::K::generator() * r == u {
        Some(msg)
    } else {
        None
    }
}

/// LEB128 prefix: (bytes used, value) or None when no terminating byte is found within 10 bytes
pub fn leb_peek(p: &[u8]) -> Option<(usize, u128)> {
    let mut n: u128 = 0;
    for (i, b) in p.iter().enumerate().take(10) {
        n |= ((*b & 0x7f) as u128) << (7 * i);
        if b & 0x80 == 0 {
            return Some((i + 1, n));
        }
    }
    None
}

pub struct TlBuilt<C: BlsSignatureImpl + Clone> {
    pub variants: Vec<TimeCryptCiphertext<C>>,
    pub msg: Vec<u8>,
}

pub fn build<C: BlsSignatureImpl + Clone>(lib: &Lib, c: &Value, rng: &mut ChaCha8Rng, expand_ok: bool) -> Result<TlBuilt<C>, String> {
    let k = geti(c, "k");
    let n = geti(c, "n") as usize;
    let scheme0 = scheme_of(gets(c, "scheme0"));
    let pk = lib.sk::<C>(k).public_key();
    let msg = msg_of_len(lib.conc, "M", n);
    let id = lib.msg::<C>(&c["id"]);
    let ct0 = pk.encrypt_time_lock(scheme0, &msg, &id).map_err(|e| format!("seal refused: {e}"))?;
    // the genuine ciphertext is opened with the genuine signature first (same thread)
    // ... and then refused with a signature over another identifier
    if let Ok(gs) = lib.sk::<C>(k).sign(scheme0, &id) {
        let _ = ct0.decrypt(&gs).is_some();
    }
    if let Ok(ws) = lib.sk::<C>(k).sign(scheme0, b"another, longer identifier used before the judged call") {
        let _ = ct0.decrypt(&ws).is_some();
    }
    let other = pk.encrypt_time_lock(scheme0, &msg, &id).map_err(|e| format!("seal refused: {e}"))?;
    let ops = geta(c, "ops");
    let mut cur = vec![ct0];
    let p = leb128(n as u64).len();
    for (oi, o) in ops.iter().enumerate() {
        let expand = expand_ok && oi + 1 == ops.len() && ops.len() == 1;
        let mut next = vec![];
        for ct in cur.into_iter() {
            let mut push = |c: TimeCryptCiphertext<C>| next.push(c);
            match gets(o, "op") {
                "UAddGen" => push(TimeCryptCiphertext { u: ct.u + <C as Pairing>::PublicKey::generator(), ..ct }),
                "UNeg" => push(TimeCryptCiphertext { u: -ct.u, ..ct }),
                "UScale" => push(TimeCryptCiphertext { u: ct.u.double(), ..ct }),
                "UId" => push(TimeCryptCiphertext { u: <C as Pairing>::PublicKey::identity(), ..ct }),
                "USwap" => push(TimeCryptCiphertext { u: other.u, ..ct }),
                "VSwap" => push(TimeCryptCiphertext { v: other.v, ..ct }),
                "VOne" => {
                    // recover alpha with the real signature, re-mask it with SHA256(1_GT)
                    let sig = *lib.sk::<C>(k).sign(scheme0, &id).map_err(|e| e.to_string())?.as_raw_value();
                    let kk = <C as Pairing>::pairing(&[(sig, ct.u)]);
                    let h1 = Sha256::digest(kk.to_bytes().as_ref());
                    let h2 = Sha256::digest(<C as Pairing>::PairingResult::identity().to_bytes().as_ref());
                    let mut c2 = ct.clone();
                    for i in 0..32 {
                        c2.v[i] ^= h1[i] ^ h2[i];
                    }
                    push(c2);
                }
                "VFlip" => {
                    let bits: Vec<usize> = if expand { (0..256).collect() } else { vec![rng.gen_range(0..256)] };
                    for b in bits {
                        let mut c2 = ct.clone();
                        c2.v[b / 8] ^= 1 << (b % 8);
                        push(c2);
                    }
                }
                "Relabel" => push(TimeCryptCiphertext { scheme: scheme_of(gets(o, "arg")), ..ct }),
                "W" => {
                    let total = ct.w.len();
                    let flip_region = |rg: std::ops::Range<usize>, rng: &mut ChaCha8Rng| -> Vec<usize> {
                        if rg.is_empty() {
                            return vec![];
                        }
                        if !expand {
                            return vec![rng.gen_range(rg.start * 8..rg.end * 8)];
                        }
                        if rg.len() <= 48 {
                            (rg.start * 8..rg.end * 8).collect()
                        } else {
                            let mut b: Vec<usize> = (rg.start * 8..rg.start * 8 + 8).chain(rg.end * 8 - 8..rg.end * 8).collect();
                            for _ in 0..48 {
                                b.push(rng.gen_range(rg.start * 8..rg.end * 8));
                            }
                            b
                        }
                    };
                    match gets(o, "arg") {
                        a @ ("flip-prefix" | "flip-message" | "flip-padding") => {
                            let rg = match a {
                                "flip-prefix" => 0..p,
                                "flip-message" => p..p + n,
                                _ => p + n..total,
                            };
                            for b in flip_region(rg, rng) {
                                let mut c2 = ct.clone();
                                c2.w[b / 8] ^= 1 << (b % 8);
                                push(c2);
                            }
                        }
                        "extend" => {
                            for ext in [vec![0u8], vec![0xffu8], vec![0x5au8; 40]] {
                                let mut c2 = ct.clone();
                                c2.w.extend_from_slice(&ext);
                                push(c2);
                                if !expand {
                                    break;
                                }
                            }
                        }
                        "trunc-pad" => {
                            let lens: Vec<usize> = if expand { (p + n..total).collect() } else { vec![p + n] };
                            for l in lens {
                                let mut c2 = ct.clone();
                                c2.w.truncate(l);
                                push(c2);
                            }
                        }
                        "trunc-msg" => {
                            let all: Vec<usize> = (1..p + n).collect();
                            let lens: Vec<usize> = if all.is_empty() {
                                vec![]
                            } else if expand && all.len() <= 64 {
                                all
                            } else {
                                vec![all[0], all[all.len() / 2], all[all.len() - 1]]
                            };
                            for l in lens {
                                let mut c2 = ct.clone();
                                c2.w.truncate(l);
                                push(c2);
                            }
                        }
                        "trunc-all" => {
                            let mut c2 = ct.clone();
                            c2.w.clear();
                            push(c2);
                        }
                        x => return Err(format!("unknown W tamper {x}")),
                    }
                }
                x => return Err(format!("timelock: unknown op {x}")),
            }
        }
        cur = next;
    }
    Ok(TlBuilt { variants: cur, msg })
}

fn varint128(mut x: u128) -> Vec<u8> {
    let mut out = vec![];
    loop {
        let b = (x & 0x7f) as u8;
        x >>= 7;
        if x == 0 {
            out.push(b);
            return out;
        }
        out.push(b | 0x80);
    }
}

/// a time-lock ciphertext built from the public building blocks only, as any sender can (spec: CraftShapes)
pub fn craft<C: BlsSignatureImpl>(tables: &Tables, pk: &PublicKey<C>, scheme: SignatureSchemes, id: &[u8], msg: &[u8], shape: &str) -> TimeCryptCiphertext<C> {
    use sha2::Digest;
    let alpha: [u8; 32] = if shape == "alpha_noncanon" { [0xff; 32] } else { let mut a = [0x5au8; 32]; a[0] = 0x11; a };
    let n = msg.len() as u128;
    let prefix: Vec<u8> = match shape {
        "len_2p64" => varint128((1u128 << 64) + n),
        "len_2p70" => varint128((1u128 << 70) + n),
        "len_19groups" => {
            let mut p = vec![0xffu8; 18];
            p.push(0x03);
            p
        }
        "len_max_minus" => varint128(u64::MAX as u128 - 1),
        "len_plus1" => varint128(n + 1),
        _ => varint128(n),
    };
    let mut frame = prefix;
    frame.extend_from_slice(msg);
    while frame.len() < 32 {
        frame.push(0);
    }
    let salt = tables.salt("TIMELOCK");
    let mut r_in = alpha.to_vec();
    r_in.extend_from_slice(sha2::Sha256::digest(msg).as_slice());
    let r = <C as HashToScalar>::hash_to_scalar(&r_in, &salt);
    let idm: Vec<u8> = if scheme == SignatureSchemes::MessageAugmentation { [&enc_k::<C>(&pk.0)[..], id].concat() } else { id.to_vec() };
    let k = <C as Pairing>::pairing(&[(<C as HashToPoint>::hash_to_point(&idm, crate::signcrypt::dst_of::<C>(scheme)), pk.0 * r)]);
    let u = <C as Pairing>::PublicKey::generator() * r;
    let v = <C as BlsTimeCrypt>::compute_v(k, &alpha);
    let w = <C as BlsTimeCrypt>::compute_w(&alpha, &frame);
    TimeCryptCiphertext { u, v, w, scheme }
}

pub fn make_sig<C: BlsSignatureImpl + Clone>(lib: &Lib, sr: &Value) -> Result<(String, <C as Pairing>::Signature), String> {
    let k = geti(sr, "k");
    let scheme = gets(sr, "scheme");
    let id = lib.msg::<C>(&sr["id"]);
    let sk = lib.sk::<C>(k);
    let mut pt = if gets(sr, "route") == "whole" {
        *sk.sign(scheme_of(scheme), &id).map_err(|e| e.to_string())?.as_raw_value()
    } else if gets(sr, "route") == "big" {
        // recombined from the shares with the listed identifiers of a (t, n) deal, n up to 255
        let (t, n) = (geti(sr, "t") as usize, geti(sr, "n") as usize);
        let sh = deal::<C>(&sk, t, n, lib.conc.seed).map_err(|e| e.to_string())?;
        let parts: Vec<SignatureShare<C>> = geta(sr, "ids").iter().map(|i| sh[i.as_i64().unwrap() as usize - 1].sign(scheme_of(scheme), &id).unwrap()).collect();
        *Signature::<C>::from_shares(&parts).map_err(|e| format!("from_shares of {} distinct honest shares: {e}", parts.len()))?.as_raw_value()
    } else {
        let (t, n, cnt) = (geti(sr, "t") as usize, geti(sr, "n") as usize, geti(sr, "cnt") as usize);
        let sh = deal::<C>(&sk, t, n, lib.conc.seed).map_err(|e| e.to_string())?;
        let mut parts: Vec<SignatureShare<C>> = sh[..cnt].iter().map(|s| s.sign(scheme_of(scheme), &id).unwrap()).collect();
        if gets(sr, "route") == "shares_rev" {
            parts.reverse();
        }
        *Signature::<C>::from_shares(&parts).map_err(|e| e.to_string())?.as_raw_value()
    };
    match gets(sr, "how") {
        "identity" => pt = <C as Pairing>::Signature::identity(),
        "neg" => pt = -pt,
        _ => {}
    }
    Ok((gets(sr, "label").to_string(), pt))
}

pub fn run<C, R>(v: &Value, conc: &Conc, tables: &Tables) -> Outcome
where
    C: BlsSignatureImpl + PartialEq + Eq + std::fmt::Debug + Clone,
    R: RefG,
{
    let lib = Lib { conc, tables };
    let rf = RefCtx { conc, tables };
    let mut rng = ChaCha8Rng::seed_from_u64(conc.seed ^ 0x7171);
    match gets(v, "act") {
        "TLSeal" => {
            let k = geti(v, "k");
            let n = geti(v, "n") as usize;
            let pk = if k == 0 { PublicKey::<C>(<C as Pairing>::PublicKey::identity()) } else { lib.sk::<C>(k).public_key() };
            let msg = msg_of_len(conc, "M", n);
            let id = lib.msg::<C>(&v["id"]);
            let r = pk.encrypt_time_lock(scheme_of(gets(v, "scheme")), &msg, &id);
            let got = if r.is_ok() { "Ok" } else { "Err" };
            if got != gets(&v["expect"], "res") {
                return Outcome::fail(json!({"res": got}), "sealing result differs from the spec");
            }
            if let Ok(ct) = r {
                if ct.w.len() as i64 != geti(&v["expect"], "len") {
                    return Outcome::fail(json!({"len": ct.w.len()}), "payload length differs from max(32, Leb128Len(n)+n)");
                }
                // identifiers that coincide with other things the library handles: the recipient's own key bytes followed
                // by the identifier, and the scheme's tag.  Opens with the signature over exactly that identifier only.
                if k != 0 && n <= 129 {
                    let scheme = scheme_of(gets(v, "scheme"));
                    let skk = lib.sk::<C>(k);
                    for id2 in [[&enc_k::<C>(&pk.0)[..], &id[..]].concat(), crate::signcrypt::dst_of::<C>(scheme).to_vec()] {
                        if let (Ok(c2), Ok(s_right), Ok(s_other)) = (pk.encrypt_time_lock(scheme, &msg, &id2), skk.sign(scheme, &id2), skk.sign(scheme, &id)) {
                            let a: Option<Vec<u8>> = c2.decrypt(&s_right).into();
                            let b2: Option<Vec<u8>> = c2.decrypt(&s_other).into();
                            if a.as_deref() != Some(&msg[..]) || (id2 != id && b2.is_some()) {
                                return Outcome::fail(json!({"id": hex::encode(&id2)}), "an identifier that begins with the recipient's key bytes (or equals the tag): opens with the signature over that identifier only - not as the property says");
                            }
                            let rexp = ref_open::<R>(&rf, &enc_k::<C>(&c2.u), &c2.v, &c2.w, &enc_s::<C>(s_right.as_raw_value()), true);
                            if rexp.as_deref() != Some(&msg[..]) {
                                return Outcome::fail(json!({"id": hex::encode(&id2)}), "the independent implementation does not open a ciphertext sealed to an identifier that begins with the key bytes");
                            }
                        } else {
                            return Outcome::fail(json!({}), "sealing / signing for an identifier that begins with the key bytes refused");
                        }
                    }
                }
                if n == 65536 && k != 0 {
                    let scheme = scheme_of(gets(v, "scheme"));
                    if let Ok(sig) = lib.sk::<C>(k).sign(scheme, &id) {
                        for big in [(1usize << 20) - 3, (1 << 20) + 1, 3 << 20] {
                            let m = msg_of_len(conc, "Mbig", big);
                            let back: Option<Vec<u8>> = pk.encrypt_time_lock(scheme, &m, &id).ok().and_then(|c| c.decrypt(&sig).into());
                            if back.as_deref() != Some(&m[..]) {
                                return Outcome::fail(json!({"n": big}), format!("a message of {big} bytes does not survive time-lock seal / open"));
                            }
                        }
                    }
                }
            }
            Outcome::pass(json!({"res": got}))
        }
        "TLDecrypt" => {
            let b = match build::<C>(&lib, &v["ct"], &mut rng, getb(v, "rightsig")) {
                Ok(b) => b,
                Err(e) => return Outcome::fail(json!({}), e),
            };
            let (label, pt) = match make_sig::<C>(&lib, &v["sig"]) {
                Ok(x) => x,
                Err(e) => return Outcome::fail(json!({}), format!("cannot build the signature: {e}")),
            };
            let sig = wrap_sig::<C>(&label, pt);
            let want = gets(&v["expect"], "out");
            let mut o = Outcome::pass(json!({}));
            for c in b.variants.iter() {
                let r: Option<Vec<u8>> = c.decrypt(&sig).into();
                let got = match &r {
                    None => "None",
                    Some(m) if *m == b.msg => "Some",
                    Some(_) => "SomeOther",
                };
                if got == "SomeOther" {
                    return Outcome::fail(json!({"out": got, "w_len": c.w.len()}), "time-lock decryption returned a different message");
                }
                if got != want {
                    return Outcome::fail(json!({"out": got, "w_len": c.w.len()}), format!("spec predicts {want}, library returned {got}"));
                }
                let rexp = ref_open::<R>(&rf, &enc_k::<C>(&c.u), &c.v, &c.w, &enc_s::<C>(&pt), label == scheme_name(c.scheme));
                if rexp != r {
                    return Outcome::fail(json!({"lib": got, "ref": rexp.is_some()}), "decryption result differs from the independent implementation");
                }
                o.extra += 1;
                // the same opening through the trait-level entry point (the label match is the wrapper's validity bit)
                let same_label = label == scheme_name(c.scheme);
                let tsig = if same_label { pt } else { <C as Pairing>::Signature::default() };
                let tr: Option<Vec<u8>> = <C as BlsTimeCrypt>::unseal(c.u, &c.v, &c.w, tsig, subtle::Choice::from(same_label as u8)).into();
                if tr != r {
                    return Outcome::fail(json!({"path": "trait", "trait": tr.is_some(), "struct": got}), format!("spec predicts {want}, the trait-level BlsTimeCrypt::unseal and TimeCryptCiphertext::decrypt disagree"));
                }
                o.extra += 1;
            }
            // ciphertexts a sender can craft for the same key, identifier, scheme and message (spec: CraftShapes)
            if let Some(crafts) = v.get("crafts").and_then(|c| c.as_object()) {
                let c0 = &v["ct"];
                let pk = lib.sk::<C>(geti(c0, "k")).public_key();
                let id = lib.msg::<C>(&c0["id"]);
                let scheme0 = scheme_of(gets(c0, "scheme0"));
                for (shape, wantc) in crafts {
                    let ct = craft::<C>(tables, &pk, scheme0, &id, &b.msg, shape);
                    let r: Option<Vec<u8>> = ct.decrypt(&sig).into();
                    let got = match &r {
                        None => "None",
                        Some(m) if *m == b.msg => "M",
                        Some(_) => "other",
                    };
                    let ok = match wantc.as_str().unwrap_or("") {
                        "M" => got == "M",
                        "None" => got == "None",
                        "MorNone" => got == "M" || got == "None",
                        _ => false,
                    };
                    if !ok {
                        return Outcome::fail(json!({"craft": shape, "out": got}), format!("a ciphertext crafted by a sender ({shape}): spec predicts {}, library returned {got}", wantc.as_str().unwrap_or("")));
                    }
                    o.extra += 1;
                }
            }
            o
        }
        x => Outcome::fail(json!({}), format!("timelock: unknown act {x}")),
    }
}
