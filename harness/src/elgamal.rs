//! Replay of ElGamal vectors (spec/ElGamal.tla); the evaluator verifies and creates proofs
//! independently (merlin transcript with protocol label, labels and order from the spec tables).
use crate::conc::*;
use crate::refeval::*;
use crate::signet::*;
use crate::threshold::{deal, ref_lambda};
use blsful::inner_types::{Field, Group, GroupEncoding};
use blsful::*;
use bls12_381_plus::ff::Field as RField;
use bls12_381_plus::group::Group as RGroup;
use bls12_381_plus::Scalar as RS;
use rand::{Rng, SeedableRng};
use rand_chacha::ChaCha8Rng;
use serde_json::{json, Value};

pub fn ref_hm<R: RefG>(t: &Tables) -> R::K {
    R::hash_k(&R::enc_k(&R::K::generator()), &t.tag(R::NAME, "ENC"))
}

pub fn rs_from_be(b: &[u8]) -> Option<RS> {
    let a: [u8; 32] = b.try_into().ok()?;
    RS::from_be_bytes(&a).into()
}

/// the Fiat-Shamir challenge of the documented transcript
pub fn ref_challenge<R: RefG>(t: &Tables, pk: &R::K, c1: &R::K, c2: &R::K, r1: &R::K, r2: &R::K) -> RS {
    ref_challenge_gen::<R>(t, pk, &ref_hm::<R>(t), c1, c2, r1, r2)
}

/// the same transcript over a caller-supplied message generator: the "generator" entry absorbs the generator in use
pub fn ref_challenge_gen<R: RefG>(t: &Tables, pk: &R::K, gen: &R::K, c1: &R::K, c2: &R::K, r1: &R::K, r2: &R::K) -> RS {
    let m = &t.0["merlin"];
    let proto: &'static [u8] = Box::leak(gets(m, "proto").as_bytes().to_vec().into_boxed_slice());
    let mut tr = merlin::Transcript::new(proto);
    for l in geta(m, "labels") {
        let label: &'static [u8] = Box::leak(l[0].as_str().unwrap().as_bytes().to_vec().into_boxed_slice());
        let what = l[1].as_str().unwrap();
        let data: Vec<u8> = match what {
            "P" => R::enc_k(&R::K::generator()),
            "pk" => R::enc_k(pk),
            "Hm" => R::enc_k(gen),
            "c1" => R::enc_k(c1),
            "c2" => R::enc_k(c2),
            "r1" => R::enc_k(r1),
            "r2" => R::enc_k(r2),
            x if x.starts_with("SALT:") => t.salt(&x[5..]),
            x => panic!("unknown transcript item {x}"),
        };
        tr.append_message(label, &data);
    }
    let cl: &'static [u8] = Box::leak(gets(m, "challenge").as_bytes().to_vec().into_boxed_slice());
    let mut buf = [0u8; 64];
    tr.challenge_bytes(cl, &mut buf);
    RS::from_bytes_wide(&buf)
}

/// reference verification of (c1, c2, mp, bp, ch) for pk
pub fn ref_verify<R: RefG>(t: &Tables, pk: &R::K, c1: &R::K, c2: &R::K, mp: &RS, bp: &RS, ch: &RS) -> bool {
    ref_verify_gen::<R>(t, pk, &ref_hm::<R>(t), c1, c2, mp, bp, ch)
}
pub fn ref_verify_gen<R: RefG>(t: &Tables, pk: &R::K, gen: &R::K, c1: &R::K, c2: &R::K, mp: &RS, bp: &RS, ch: &RS) -> bool {
    if bool::from(pk.is_identity()) || bool::from(c1.is_identity()) || bool::from(c2.is_identity()) {
        return false;
    }
    if bool::from(mp.is_zero()) || bool::from(bp.is_zero()) || bool::from(ch.is_zero()) {
        return false;
    }
    let r1 = *c1 * (-*ch) + R::K::generator() * *bp;
    let r2 = *c2 * (-*ch) + *gen * *mp + *pk * *bp;
    ref_challenge_gen::<R>(t, pk, gen, c1, c2, &r1, &r2) == *ch
}

fn pt_from_bytes<C: BlsSignatureImpl>(b: &[u8]) -> <C as Pairing>::PublicKey {
    let mut repr = <<C as Pairing>::PublicKey as GroupEncoding>::Repr::default();
    repr.as_mut().copy_from_slice(b);
    Option::<<C as Pairing>::PublicKey>::from(<C as Pairing>::PublicKey::from_bytes(&repr)).expect("point decodes")
}
fn sc_from_be<C: BlsSignatureImpl>(b: &[u8; 32]) -> Sc<C> {
    Option::<SecretKey<C>>::from(SecretKey::<C>::from_be_bytes(b)).expect("scalar decodes").0
}

fn apply_ops<C: BlsSignatureImpl>(p: &mut ElGamalProof<C>, oth: &ElGamalProof<C>, ops: &[Value]) {
    for o in ops {
        let how = gets(o, "how");
        let pt = |x: <C as Pairing>::PublicKey, ox: <C as Pairing>::PublicKey| match how {
            "add" => x + <C as Pairing>::PublicKey::generator(),
            "neg" => -x,
            "swap" => ox,
            _ => <C as Pairing>::PublicKey::identity(),
        };
        let scl = |x: Sc<C>, ox: Sc<C>| match how {
            "add" => x + Sc::<C>::ONE,
            "neg" => -x,
            "swap" => ox,
            _ => Sc::<C>::ZERO,
        };
        match gets(o, "field") {
            "c1" => p.ciphertext.c1 = pt(p.ciphertext.c1, oth.ciphertext.c1),
            "c2" => p.ciphertext.c2 = pt(p.ciphertext.c2, oth.ciphertext.c2),
            "mp" => p.message_proof = scl(p.message_proof, oth.message_proof),
            "bp" => p.blinder_proof = scl(p.blinder_proof, oth.blinder_proof),
            "ch" => p.challenge = scl(p.challenge, oth.challenge),
            x => panic!("unknown proof field {x}"),
        }
    }
}

fn ref_view<C: BlsSignatureImpl, R: RefG>(p: &ElGamalProof<C>) -> Option<(R::K, R::K, RS, RS, RS)> {
    Some((
        R::dec_k(&enc_k::<C>(&p.ciphertext.c1))?,
        R::dec_k(&enc_k::<C>(&p.ciphertext.c2))?,
        rs_from_be(&SecretKey::<C>(p.message_proof).to_be_bytes())?,
        rs_from_be(&SecretKey::<C>(p.blinder_proof).to_be_bytes())?,
        rs_from_be(&SecretKey::<C>(p.challenge).to_be_bytes())?,
    ))
}

pub fn run<C, R>(v: &Value, conc: &Conc, tables: &Tables) -> Outcome
where
    C: BlsSignatureImpl + PartialEq + Eq + std::fmt::Debug + Clone,
    R: RefG,
{
    let lib = Lib { conc, tables };
    let rf = RefCtx { conc, tables };
    let mut rng = ChaCha8Rng::seed_from_u64(conc.seed ^ 0xe16a);
    let hm = <C as BlsElGamal>::message_generator();
    let plain = |m: i64| SecretKey::<C>(sc::<C>(m));
    match gets(v, "act") {
        "EGEncrypt" => {
            let k = geti(v, "k");
            let pk = if k == 0 { PublicKey::<C>(<C as Pairing>::PublicKey::identity()) } else { lib.sk::<C>(k).public_key() };
            let r1 = pk.encrypt_key_el_gamal(&plain(geti(v, "m")));
            let r2 = pk.encrypt_key_el_gamal_with_proof(&plain(geti(v, "m")));
            let want = gets(&v["expect"], "res");
            for got in [r1.is_ok(), r2.is_ok()] {
                if (if got { "Ok" } else { "Err" }) != want {
                    return Outcome::fail(json!({"ok": got}), "encryption result differs from the spec");
                }
            }
            // the message generator is the documented one
            if enc_k::<C>(&hm) != R::enc_k(&ref_hm::<R>(tables)) {
                return Outcome::fail(json!({}), "message generator differs from hash_to_curve(enc(P), ENC tag)");
            }
            let mut o = Outcome::pass(json!({}));
            o.extra += 2;
            o
        }
        "EGDecrypt" => {
            let k = geti(v, "k");
            let pk = lib.sk::<C>(k).public_key();
            let ms: Vec<i64> = geta(v, "ms").iter().map(|x| x.as_i64().unwrap()).collect();
            let plan = v.get("plan").and_then(|x| x.as_str()).unwrap_or("fresh");
            let l = ms.len();
            let b1 = Sc::<C>::random(&mut rng);
            let mut cts: Vec<ElGamalCiphertext<C>> = vec![];
            for (i, m) in ms.iter().enumerate() {
                let chosen = |b: Sc<C>| -> ElGamalCiphertext<C> {
                    let (c1, c2) = <C as BlsElGamal>::seal_scalar(pk.0, sc::<C>(*m), None, Some(b), rand_chacha::ChaCha8Rng::seed_from_u64(1)).expect("seal_scalar with a chosen blinder");
                    ElGamalCiphertext { c1, c2 }
                };
                let triv = ElGamalCiphertext::<C> { c1: <C as Pairing>::PublicKey::identity(), c2: hm * sc::<C>(*m) };
                cts.push(match (plan, i) {
                    ("cancel", 0) => chosen(b1),
                    ("cancel", 1) => chosen(-b1),
                    ("trivfirst", 0) if l >= 2 => triv,
                    ("trivlast", x) if l >= 2 && x == l - 1 => triv,
                    _ => pk.encrypt_key_el_gamal(&plain(*m)).expect("encrypt"),
                });
            }
            // every form of addition the type offers must agree
            let mut s1 = cts[0];
            let mut s2 = cts[0];
            let mut s3 = cts[0];
            let mut s4 = cts[0];
            let mut s5 = cts[0];
            let mut s6 = cts[0];
            for c in &cts[1..] {
                s1 = s1 + *c;
                s2 = &s2 + c;
                s3 = s3 + c;
                s4 = &s4 + *c;
                s5 += *c;
                s6 += c;
            }
            // the same sum folded from the neutral element, and the component-wise sum
            let mut s7 = ElGamalCiphertext::<C> { c1: <C as Pairing>::PublicKey::identity(), c2: <C as Pairing>::PublicKey::identity() };
            let (mut w1, mut w2) = (<C as Pairing>::PublicKey::identity(), <C as Pairing>::PublicKey::identity());
            for c in &cts {
                s7 = s7 + *c;
                w1 += c.c1;
                w2 += c.c2;
            }
            let s8 = ElGamalCiphertext::<C> { c1: w1, c2: w2 };
            for s in [&s2, &s3, &s4, &s5, &s6, &s7, &s8] {
                if *s != s1 {
                    return Outcome::fail(json!({"plan": plan}), "the addition forms of ElGamalCiphertext disagree (with each other, with the fold from the neutral element, or with the component-wise sum)");
                }
            }
            let d = s1.decrypt(&lib.sk::<C>(geti(v, "k2")));
            if <C as BlsElGamal>::decrypt(lib.sk::<C>(geti(v, "k2")).0, s1.c1, s1.c2) != d {
                return Outcome::fail(json!({"path": "trait"}), "the trait-level decrypt and ElGamalCiphertext::decrypt disagree");
            }
            let total: i64 = ms.iter().sum();
            let eq = d == hm * sc::<C>(total);
            if eq != getb(&v["expect"], "eq") {
                return Outcome::fail(json!({"eq": eq}), "decryption of the (sum of) ciphertexts: not as the spec predicts");
            }
            // reference decryption
            let rc1 = R::dec_k(&enc_k::<C>(&s1.c1)).unwrap();
            let rc2 = R::dec_k(&enc_k::<C>(&s1.c2)).unwrap();
            let rd = rc2 - rc1 * rscalar(geti(v, "k2"));
            if R::enc_k(&rd) != enc_k::<C>(&d) {
                return Outcome::fail(json!({}), "decryption differs from the reference c2 - sk*c1");
            }
            let mut o = Outcome::pass(json!({"eq": eq}));
            o.extra += 6;
            o
        }
        "EGVerify" | "EGVerifyDecrypt" => {
            let k = geti(v, "k");
            let pk = lib.sk::<C>(k).public_key();
            let mut p = pk.encrypt_key_el_gamal_with_proof(&plain(geti(v, "m"))).expect("proof");
            let oth = pk.encrypt_key_el_gamal_with_proof(&plain(geti(v, "m2"))).expect("proof");
            let ops = geta(v, "ops");
            // the genuine proof is verified first (same thread), then the perturbed one
            let _ = (p.verify(pk).is_ok(), p.verify_and_decrypt(&lib.sk::<C>(k)).is_ok());
            // ... then a refused one (another proof's challenge)
            {
                let mut bad = pk.encrypt_key_el_gamal_with_proof(&plain(geti(v, "m"))).expect("proof");
                bad.challenge = oth.challenge;
                let _ = (bad.verify(pk).is_ok(), bad.verify_and_decrypt(&lib.sk::<C>(k)).is_ok());
            }
            apply_ops::<C>(&mut p, &oth, ops);
            let want = gets(&v["expect"], "res");
            let mut o = Outcome::pass(json!({}));
            if gets(v, "act") == "EGVerify" {
                let vpk = lib.pk::<C>(&v["pk"]);
                let r = p.verify(vpk);
                let got = if r.is_ok() { "Ok" } else { "Err" };
                if got != want {
                    return Outcome::fail(json!({"res": got}), format!("spec predicts {want}, ElGamalProof::verify returned {got}"));
                }
                {
                    let t = <C as BlsElGamal>::verify_proof(vpk.0, None, p.ciphertext.c1, p.ciphertext.c2, p.message_proof, p.blinder_proof, p.challenge);
                    let tg = if t.is_ok() { "Ok" } else { "Err" };
                    if tg != want {
                        return Outcome::fail(json!({"path": "trait", "trait": tg, "struct": got}), format!("spec predicts {want}, the trait-level verify_proof returned {tg}"));
                    }
                    o.extra += 1;
                }
                if let Some((c1, c2, mp, bp, ch)) = ref_view::<C, R>(&p) {
                    let rv = ref_verify::<R>(tables, &rf.pk::<R>(&v["pk"]), &c1, &c2, &mp, &bp, &ch);
                    if rv != r.is_ok() {
                        return Outcome::fail(json!({"lib": got, "ref": rv}), "proof verdict differs from the independent implementation");
                    }
                    o.extra += 1;
                }
                if ops.is_empty() && getb(v, "rightpk") {
                    // the library accepts a proof made by the independent implementation
                    let (m, b, rho) = (rscalar(geti(v, "m")), RS::from(rng.gen::<u64>()) + RS::ONE, RS::from(rng.gen::<u64>()) + RS::ONE);
                    let rpk = rf.pk_of::<R>(k);
                    let h = ref_hm::<R>(tables);
                    let (c1, c2) = (R::K::generator() * b, rpk * b + h * m);
                    let (r1, r2) = (R::K::generator() * rho, h * b + rpk * rho);
                    let ch = ref_challenge::<R>(tables, &rpk, &c1, &c2, &r1, &r2);
                    let made = ElGamalProof::<C> {
                        ciphertext: ElGamalCiphertext { c1: pt_from_bytes::<C>(&R::enc_k(&c1)), c2: pt_from_bytes::<C>(&R::enc_k(&c2)) },
                        message_proof: sc_from_be::<C>(&(b + ch * m).to_be_bytes()),
                        blinder_proof: sc_from_be::<C>(&(rho + ch * b).to_be_bytes()),
                        challenge: sc_from_be::<C>(&ch.to_be_bytes()),
                    };
                    if made.verify(pk).is_err() {
                        return Outcome::fail(json!({}), "the library rejects a proof made by the independent implementation");
                    }
                    match made.verify_and_decrypt(&lib.sk::<C>(k)) {
                        Ok(d) if d == hm * sc::<C>(geti(v, "m")) => {}
                        _ => return Outcome::fail(json!({}), "verify_and_decrypt of a reference-made proof fails"),
                    }
                    o.extra += 2;
                    // the same protocol over a caller-supplied message generator (trait-level API)
                    let g2 = hm * sc::<C>(3) + <C as Pairing>::PublicKey::generator();
                    let msc = sc::<C>(geti(v, "m"));
                    let sealed = <C as BlsElGamal>::seal_scalar_with_proof(pk.0, msc, Some(g2), None, rand_chacha::ChaCha20Rng::seed_from_u64(rng.gen()));
                    match sealed {
                        Ok((c1, c2, mp, bp, ch)) => {
                            if <C as BlsElGamal>::verify_proof(pk.0, Some(g2), c1, c2, mp, bp, ch).is_err() {
                                return Outcome::fail(json!({}), "honest proof over a caller-supplied generator is rejected");
                            }
                            match <C as BlsElGamal>::verify_and_decrypt(lib.sk::<C>(k).0, Some(g2), c1, c2, mp, bp, ch) {
                                Ok(d) if d == g2 * msc => {}
                                _ => return Outcome::fail(json!({}), "verify_and_decrypt over a caller-supplied generator fails"),
                            }
                            if <C as BlsElGamal>::verify_proof(pk.0, None, c1, c2, mp, bp, ch).is_ok() {
                                return Outcome::fail(json!({}), "a proof over another generator verifies for the default generator");
                            }
                            // the documented transcript binds the generator in use: the independent verifier accepts it
                            let cv = |p: &<C as Pairing>::PublicKey| R::dec_k(&enc_k::<C>(p)).unwrap();
                            let sv = |x: &Sc<C>| rs_from_be(&SecretKey::<C>(*x).to_be_bytes()).unwrap();
                            if !ref_verify_gen::<R>(tables, &cv(&pk.0), &cv(&g2), &cv(&c1), &cv(&c2), &sv(&mp), &sv(&bp), &sv(&ch)) {
                                return Outcome::fail(json!({}), "the independent verifier rejects a library proof over a caller-supplied generator (transcript does not bind the generator in use)");
                            }
                        }
                        Err(e) => return Outcome::fail(json!({}), format!("seal_scalar_with_proof with a generator refused: {e}")),
                    }
                    o.extra += 3;
                }
            } else {
                let r = p.verify_and_decrypt(&lib.sk::<C>(geti(v, "k2")));
                let got = if r.is_ok() { "Ok" } else { "Err" };
                if got != want {
                    return Outcome::fail(json!({"res": got}), format!("spec predicts {want}, verify_and_decrypt returned {got}"));
                }
                {
                    let t = <C as BlsElGamal>::verify_and_decrypt(lib.sk::<C>(geti(v, "k2")).0, None, p.ciphertext.c1, p.ciphertext.c2, p.message_proof, p.blinder_proof, p.challenge);
                    let tg = if t.is_ok() { "Ok" } else { "Err" };
                    if tg != want || t.as_ref().ok() != r.as_ref().ok() {
                        return Outcome::fail(json!({"path": "trait", "trait": tg, "struct": got}), format!("spec predicts {want}, the trait-level verify_and_decrypt returned {tg} (or another point)"));
                    }
                    o.extra += 1;
                }
                if let Ok(d) = r {
                    let eq = d == hm * sc::<C>(geti(v, "m"));
                    if eq != getb(&v["expect"], "eq") {
                        return Outcome::fail(json!({"eq": eq}), "verify_and_decrypt yields another point than m*Hm");
                    }
                }
            }
            o
        }
        "EGShares" => {
            let k = geti(v, "k");
            let sk = lib.sk::<C>(k);
            let ct = sk.public_key().encrypt_key_el_gamal(&plain(geti(v, "m"))).expect("encrypt");
            let (t, n) = (geti(v, "t") as usize, geti(v, "n") as usize);
            let sh = match deal::<C>(&sk, t, n, conc.seed) {
                Ok(s) => s,
                Err(e) => return Outcome::fail(json!({}), format!("split refused: {e}")),
            };
            let entries = geta(v, "entries");
            let mut shares: Vec<ElGamalDecryptionShare<C>> = vec![];
            for e in entries {
                let raw = <C as BlsSignatureCore>::public_key_share_with_generator(&sh[geti(e, "src") as usize - 1].0, ct.c1).expect("decryption share");
                let mut bytes = Vec::<u8>::from(&ElGamalDecryptionShare::<C>(raw));
                bytes[0] = geti(e, "id") as u8;
                if !getb(e, "ok") {
                    for x in bytes.iter_mut().skip(1) {
                        *x = 0;
                    }
                }
                shares.push(ElGamalDecryptionShare::<C>::try_from(bytes.as_slice()).expect("share container"));
            }
            let r = ElGamalDecryptionKey::<C>::from_shares(&shares);
            let got = if r.is_ok() { "Ok" } else { "Err" };
            if got != gets(&v["expect"], "res") {
                return Outcome::fail(json!({"res": got}), "decryption-key recombination result differs from the spec");
            }
            let mut o = Outcome::pass(json!({"res": got}));
            if let Ok(key) = r {
                let d = key.decrypt(&ct);
                let eq = d == hm * sc::<C>(geti(v, "m"));
                if eq != getb(&v["expect"], "eq") {
                    return Outcome::fail(json!({"eq": eq}), "threshold decryption: not as the spec predicts");
                }
                let ids: Vec<u8> = entries.iter().map(|e| geti(e, "id") as u8).collect();
                let mut acc = R::K::identity();
                for (i, s) in shares.iter().enumerate() {
                    let b = Vec::<u8>::from(s);
                    acc = acc + R::dec_k(&b[1..]).expect("ref decodes share") * ref_lambda(&ids, i);
                }
                if R::enc_k(&acc) != enc_k::<C>(&key.0) {
                    return Outcome::fail(json!({}), "decryption key differs from the reference interpolation");
                }
                o.extra += 1;
            }
            o
        }
        x => Outcome::fail(json!({}), format!("elgamal: unknown act {x}")),
    }
}
