//! The independent evaluator (DESIGN.md 3.3).  NEVER calls blsful.
//! Curve arithmetic, pairing and hash-to-curve come from `bls12_381_plus` (the backend the
//! default build of blsful does not use); HKDF is written out from HMAC-SHA-256; LEB128 and
//! framing are written by hand; tags, salts, scheme framing and transcript labels come from
//! the tables exported by the TLA+ specification (spec/Tags.tla).
use bls12_381_plus::elliptic_curve::hash2curve::ExpandMsgXmd;
use bls12_381_plus::ff::Field;
use bls12_381_plus::group::{Curve, Group};
use bls12_381_plus::{
    multi_miller_loop, G1Affine, G1Projective, G2Affine, G2Prepared, G2Projective, Gt, Scalar,
};
use hmac::{Hmac, Mac};
use serde_json::Value;
use sha2::Sha256;

use crate::conc::*;

pub type RScalar = Scalar;

pub fn rscalar(k: i64) -> Scalar {
    if k >= 0 {
        Scalar::from(k as u64)
    } else {
        -Scalar::from((-k) as u64)
    }
}

/// Group assignment as seen by the evaluator: S = signature group, K = key group.
pub trait RefG: 'static {
    type S: Group<Scalar = Scalar> + Copy;
    type K: Group<Scalar = Scalar> + Copy;
    const NAME: &'static str;
    fn hash_s(msg: &[u8], dst: &[u8]) -> Self::S;
    fn hash_k(msg: &[u8], dst: &[u8]) -> Self::K;
    fn enc_s(p: &Self::S) -> Vec<u8>;
    fn enc_k(p: &Self::K) -> Vec<u8>;
    fn dec_s(b: &[u8]) -> Option<Self::S>;
    fn dec_k(b: &[u8]) -> Option<Self::K>;
    /// product of pairings e(s_i, k_i)
    fn pair(pairs: &[(Self::S, Self::K)]) -> Gt;
}

pub struct RefG1;
pub struct RefG2;

fn pair_g1_g2(pairs: &[(G1Projective, G2Projective)]) -> Gt {
    let t: Vec<(G1Affine, G2Prepared)> =
        pairs.iter().map(|(a, b)| (a.to_affine(), G2Prepared::from(b.to_affine()))).collect();
    let r: Vec<(&G1Affine, &G2Prepared)> = t.iter().map(|(a, b)| (a, b)).collect();
    multi_miller_loop(&r).final_exponentiation()
}

impl RefG for RefG1 {
    type S = G1Projective;
    type K = G2Projective;
    const NAME: &'static str = "G1";
    fn hash_s(msg: &[u8], dst: &[u8]) -> G1Projective {
        G1Projective::hash::<ExpandMsgXmd<Sha256>>(msg, dst)
    }
    fn hash_k(msg: &[u8], dst: &[u8]) -> G2Projective {
        G2Projective::hash::<ExpandMsgXmd<Sha256>>(msg, dst)
    }
    fn enc_s(p: &G1Projective) -> Vec<u8> {
        p.to_affine().to_compressed().to_vec()
    }
    fn enc_k(p: &G2Projective) -> Vec<u8> {
        p.to_affine().to_compressed().to_vec()
    }
    fn dec_s(b: &[u8]) -> Option<G1Projective> {
        let a: [u8; 48] = b.try_into().ok()?;
        Option::<G1Affine>::from(G1Affine::from_compressed(&a)).map(G1Projective::from)
    }
    fn dec_k(b: &[u8]) -> Option<G2Projective> {
        let a: [u8; 96] = b.try_into().ok()?;
        Option::<G2Affine>::from(G2Affine::from_compressed(&a)).map(G2Projective::from)
    }
    fn pair(pairs: &[(G1Projective, G2Projective)]) -> Gt {
        pair_g1_g2(pairs)
    }
}

impl RefG for RefG2 {
    type S = G2Projective;
    type K = G1Projective;
    const NAME: &'static str = "G2";
    fn hash_s(msg: &[u8], dst: &[u8]) -> G2Projective {
        G2Projective::hash::<ExpandMsgXmd<Sha256>>(msg, dst)
    }
    fn hash_k(msg: &[u8], dst: &[u8]) -> G1Projective {
        G1Projective::hash::<ExpandMsgXmd<Sha256>>(msg, dst)
    }
    fn enc_s(p: &G2Projective) -> Vec<u8> {
        p.to_affine().to_compressed().to_vec()
    }
    fn enc_k(p: &G1Projective) -> Vec<u8> {
        p.to_affine().to_compressed().to_vec()
    }
    fn dec_s(b: &[u8]) -> Option<G2Projective> {
        let a: [u8; 96] = b.try_into().ok()?;
        Option::<G2Affine>::from(G2Affine::from_compressed(&a)).map(G2Projective::from)
    }
    fn dec_k(b: &[u8]) -> Option<G1Projective> {
        let a: [u8; 48] = b.try_into().ok()?;
        Option::<G1Affine>::from(G1Affine::from_compressed(&a)).map(G1Projective::from)
    }
    fn pair(pairs: &[(G2Projective, G1Projective)]) -> Gt {
        let sw: Vec<(G1Projective, G2Projective)> = pairs.iter().map(|(s, k)| (*k, *s)).collect();
        pair_g1_g2(&sw)
    }
}

/// The tables exported by the specification (spec/Tags.tla via MC_Tags).
#[derive(Clone)]
pub struct Tables(pub Value);

impl Tables {
    pub fn load(path: &str) -> Tables {
        let s = std::fs::read_to_string(path).unwrap_or_else(|e| panic!("cannot read tables {path}: {e}"));
        Tables(serde_json::from_str(&s).expect("tables json"))
    }
    pub fn tag(&self, group: &str, name: &str) -> Vec<u8> {
        self.0["tags"][group][name].as_str().unwrap_or_else(|| panic!("no tag {group}/{name}")).as_bytes().to_vec()
    }
    pub fn salt(&self, name: &str) -> Vec<u8> {
        self.0["salts"][name].as_str().unwrap_or_else(|| panic!("no salt {name}")).as_bytes().to_vec()
    }
    /// (tag name, prefix rule) of a signature scheme
    pub fn scheme(&self, s: &str) -> (String, String) {
        let e = &self.0["schemes"][s];
        (gets(e, "tag").to_string(), gets(e, "pre").to_string())
    }
    pub fn keygen_l(&self) -> usize {
        self.0["keygen_l"].as_u64().unwrap() as usize
    }
}

// ------------------------------------------------------------------ HKDF by hand
type HmacSha256 = Hmac<Sha256>;
fn hmac256(key: &[u8], parts: &[&[u8]]) -> [u8; 32] {
    let mut m = <HmacSha256 as Mac>::new_from_slice(key).unwrap();
    for p in parts {
        m.update(p);
    }
    m.finalize().into_bytes().into()
}

/// draft-irtf-cfrg-bls-signature 2.3 KeyGen with a caller-chosen salt (no retry loop: a zero
/// result has probability 2^-255), L octets, info = I2OSP(L, 2):
///   PRK = HKDF-Extract(salt, IKM || I2OSP(0,1)); OKM = HKDF-Expand(PRK, I2OSP(L,2), L); OS2IP(OKM) mod r
pub fn hkdf_scalar(salt: &[u8], ikm: &[u8], l: usize) -> Scalar {
    let prk = hmac256(salt, &[ikm, &[0u8]]);
    let info = [(l >> 8) as u8, (l & 0xff) as u8];
    let mut okm: Vec<u8> = Vec::new();
    let mut t: Vec<u8> = Vec::new();
    let mut ctr = 1u8;
    while okm.len() < l {
        t = hmac256(&prk, &[&t, &info, &[ctr]]).to_vec();
        okm.extend_from_slice(&t);
        ctr += 1;
    }
    okm.truncate(l);
    // OS2IP (big endian) mod r via the 512-bit little-endian reduction
    let mut wide = [0u8; 64];
    for (i, b) in okm.iter().rev().enumerate() {
        wide[i] = *b;
    }
    Scalar::from_bytes_wide(&wide)
}

// ------------------------------------------------------------------ LEB128 / framing by hand
pub fn leb128(mut n: u64) -> Vec<u8> {
    let mut out = vec![];
    loop {
        let b = (n & 0x7f) as u8;
        n >>= 7;
        if n == 0 {
            out.push(b);
            break;
        }
        out.push(b | 0x80);
    }
    out
}
/// Leb128(|M|) || M || zero padding up to 32 bytes
pub fn frame(msg: &[u8]) -> Vec<u8> {
    let mut f = leb128(msg.len() as u64);
    f.extend_from_slice(msg);
    while f.len() < 32 {
        f.push(0);
    }
    f
}
/// inverse of frame on an unmasked payload: None if the prefix does not parse or overruns
pub fn unframe(p: &[u8]) -> Option<Vec<u8>> {
    let mut n: u128 = 0;
    let mut shift = 0u32;
    let mut used = 0usize;
    let mut done = false;
    for b in p.iter() {
        used += 1;
        n |= ((*b & 0x7f) as u128) << shift;
        shift += 7;
        if b & 0x80 == 0 {
            done = true;
            break;
        }
        if shift > 126 {
            return None;
        }
    }
    if !done {
        return None;
    }
    let n = n as usize;
    if n <= p.len() - used {
        Some(p[used..used + n].to_vec())
    } else {
        None
    }
}

// ------------------------------------------------------------------ recipe interpretation
pub struct RefCtx<'a> {
    pub conc: &'a Conc,
    pub tables: &'a Tables,
}

impl<'a> RefCtx<'a> {
    pub fn pk_of<R: RefG>(&self, k: i64) -> R::K {
        R::K::generator() * rscalar(k)
    }
    pub fn msg<R: RefG>(&self, mr: &Value) -> Vec<u8> {
        let mut out = vec![];
        for ch in mr.as_array().expect("msg recipe array") {
            let c = gets(ch, "c");
            if c == "pk" {
                out.extend_from_slice(&R::enc_k(&self.pk_of::<R>(geti(ch, "k"))));
            } else if let Some(name) = c.strip_prefix("dst:") {
                out.extend_from_slice(&self.tables.tag(R::NAME, name));
            } else {
                out.extend_from_slice(&self.conc.atom(c));
            }
        }
        out
    }
    pub fn pk<R: RefG>(&self, pr: &Value) -> R::K {
        let mut p = self.pk_of::<R>(geti(pr, "k"));
        for o in geta(pr, "ops") {
            match gets(o, "op") {
                "Neg" => p = -p,
                "AddGen" => p = p + R::K::generator() * rscalar(geti(o, "n")),
                "AddKey" => p = p + self.pk_of::<R>(geti(o, "k")),
                "Identity" => p = R::K::identity(),
                x => panic!("ref: unknown pk op {x}"),
            }
        }
        p
    }
    /// hash input prescribed by the spec's scheme table: pre = "pk" prefixes enc(pk)
    pub fn hash_input<R: RefG>(&self, pre: &str, pk: &R::K, msg: &[u8]) -> Vec<u8> {
        match pre {
            "" => msg.to_vec(),
            "pk" => {
                let mut v = R::enc_k(pk);
                v.extend_from_slice(msg);
                v
            }
            "pkonly" => R::enc_k(pk),
            x => panic!("ref: unknown prefix rule {x}"),
        }
    }
    pub fn scheme_tag(&self, scheme: &str) -> (String, String) {
        if scheme == "PopProof" {
            ("POPPROOF".to_string(), "pkonly".to_string())
        } else {
            self.tables.scheme(scheme)
        }
    }
    /// CoreSign: sk * hash_to_curve(hash input, tag)
    pub fn sign<R: RefG>(&self, k: i64, scheme: &str, msg: &[u8]) -> R::S {
        // memoised per thread (the evaluator is a pure function; the library under test is never cached)
        thread_local! { static MEMO: std::cell::RefCell<std::collections::HashMap<(String, i64, String, Vec<u8>), Vec<u8>>> = std::cell::RefCell::new(std::collections::HashMap::new()); }
        let key = (R::NAME.to_string(), k, scheme.to_string(), msg.to_vec());
        if let Some(b) = MEMO.with(|m| m.borrow().get(&key).cloned()) {
            return R::dec_s(&b).expect("memoised point");
        }
        let (tag, pre) = self.scheme_tag(scheme);
        let pk = self.pk_of::<R>(k);
        let hi = self.hash_input::<R>(&pre, &pk, msg);
        let s = R::hash_s(&hi, &self.tables.tag(R::NAME, &tag)) * rscalar(k);
        MEMO.with(|m| {
            let mut m = m.borrow_mut();
            if m.len() < 4096 {
                m.insert(key, R::enc_s(&s));
            }
        });
        s
    }
    /// signature recipe -> (label, point)
    pub fn sig<R: RefG>(&self, sr: &Value) -> (String, R::S) {
        let b = &sr["base"];
        let mut label = gets(b, "scheme").to_string();
        let mut p = self.sign::<R>(geti(b, "k"), &label, &self.msg::<R>(&b["msg"]));
        for o in geta(sr, "ops") {
            match gets(o, "op") {
                "Neg" => p = -p,
                "AddGen" => p = p + R::S::generator() * rscalar(geti(o, "n")),
                "Scale" => p = p * rscalar(geti(o, "n")),
                "Relabel" | "AsSig" => label = gets(o, "s").to_string(),
                "AsPop" => label = "PopProof".to_string(),
                "Identity" => p = R::S::identity(),
                "AddSig" => p = p + self.sign::<R>(geti(o, "k"), gets(o, "s"), &self.msg::<R>(&o["m"])),
                x => panic!("ref: unknown sig op {x}"),
            }
        }
        (label, p)
    }
    /// IETF CoreVerify: KeyValidate(pk) (not the identity; subgroup membership holds by
    /// construction / decoding), then e(H(msg), pk) == e(sig, P)
    pub fn core_verify<R: RefG>(&self, pk: &R::K, sig: &R::S, hash_input: &[u8], tag: &str) -> bool {
        if bool::from(pk.is_identity()) {
            return false;
        }
        let h = R::hash_s(hash_input, &self.tables.tag(R::NAME, tag));
        R::pair(&[(h, *pk)]) == R::pair(&[(*sig, R::K::generator())])
    }
    pub fn verify<R: RefG>(&self, pk: &R::K, label: &str, sig: &R::S, msg: &[u8]) -> bool {
        let (tag, pre) = self.scheme_tag(label);
        let hi = self.hash_input::<R>(&pre, pk, msg);
        self.core_verify::<R>(pk, sig, &hi, &tag)
    }
    /// IETF CoreAggregateVerify over (pk, hash input) pairs
    pub fn core_aggregate_verify<R: RefG>(&self, pairs: &[(R::K, Vec<u8>)], sig: &R::S, tag: &str) -> bool {
        if pairs.is_empty() {
            return false;
        }
        let dst = self.tables.tag(R::NAME, tag);
        let mut acc = Gt::identity();
        for (pk, hi) in pairs {
            if bool::from(pk.is_identity()) {
                return false;
            }
            acc = acc + R::pair(&[(R::hash_s(hi, &dst), *pk)]);
        }
        acc == R::pair(&[(*sig, R::K::generator())])
    }
}

pub fn is_zero_scalar(s: &Scalar) -> bool {
    bool::from(s.is_zero())
}
