//! implementation -> spec: seeded random drivers call the real API in long arbitrary sequences
//! and log one event per call (operands as value-ids, result class, value-id of the output).
//! Same bytes <=> same id.  TLC validates the log against spec/Trace_*.tla.
use crate::signet::*;
use blsful::inner_types::{Group, GroupEncoding};
use blsful::*;
use rand::{Rng, SeedableRng};
use rand_chacha::ChaCha8Rng;
use serde_json::{json, Value};
use std::collections::HashMap;

pub struct Log {
    pub events: Vec<Value>,
    ids: HashMap<(String, Vec<u8>), String>,
    pub group: String,
}

impl Log {
    pub fn new(group: &str) -> Log {
        Log { events: vec![], ids: HashMap::new(), group: group.to_string() }
    }
    /// value-id of (kind, bytes): interned, so equal bytes <=> equal id
    pub fn id(&mut self, kind: &str, bytes: &[u8]) -> String {
        let n = self.ids.len();
        self.ids.entry((kind.to_string(), bytes.to_vec())).or_insert_with(|| format!("v{}", n)).clone()
    }
    pub fn ev(&mut self, mut e: Value) {
        e["seq"] = json!(self.events.len() + 1);
        self.events.push(e);
    }
    pub fn reset(&mut self) {
        self.ids.clear();
        self.ev(json!({"ev": "Reset", "group": self.group}));
    }
}

pub fn sig_bytes<C: BlsSignatureImpl>(s: &Signature<C>) -> Vec<u8> {
    Vec::<u8>::from(s)
}
fn sig_label<C: BlsSignatureImpl>(s: &Signature<C>) -> &'static str {
    match s {
        Signature::Basic(_) => "Basic",
        Signature::MessageAugmentation(_) => "Aug",
        Signature::ProofOfPossession(_) => "Pop",
    }
}

struct Pools<C: BlsSignatureImpl> {
    sks: Vec<(String, SecretKey<C>)>,
    pks: Vec<(String, PublicKey<C>)>,
    sigs: Vec<(String, Signature<C>, Option<(usize, Vec<Value>, Vec<u8>)>)>, // id, sig, provenance (pk index, msg recipe, msg bytes)
    pops: Vec<(String, ProofOfPossession<C>, usize)>,
    atoms: Vec<(String, Vec<u8>)>,
}

fn res_str<T>(r: &BlsResult<T>) -> &'static str {
    if r.is_ok() {
        "Ok"
    } else {
        "Err"
    }
}

/// random message: sequence of atom chunks, optionally prefixed by the encoding of a known pk
fn rand_msg<C: BlsSignatureImpl>(rng: &mut ChaCha8Rng, p: &Pools<C>) -> (Vec<Value>, Vec<u8>) {
    let mut rec = vec![];
    let mut bytes = vec![];
    if rng.gen_range(0..8) == 0 && !p.pks.is_empty() {
        let i = rng.gen_range(0..p.pks.len());
        rec.push(json!({"c": "pk", "s": "", "id": p.pks[i].0}));
        bytes.extend_from_slice(&Vec::<u8>::from(&p.pks[i].1));
    }
    let n = [0usize, 1, 1, 1, 2, 3][rng.gen_range(0..6)];
    for _ in 0..n {
        let i = rng.gen_range(0..p.atoms.len());
        rec.push(json!({"c": "a", "s": p.atoms[i].0, "id": ""}));
        bytes.extend_from_slice(&p.atoms[i].1);
    }
    (rec, bytes)
}

pub fn drive_signet<C>(log: &mut Log, seed: u64, events: usize, mix: &str)
where
    C: BlsSignatureImpl + PartialEq + Eq + std::fmt::Debug,
{
    let mut rng = ChaCha8Rng::seed_from_u64(seed ^ 0x5160_0e70);
    let mut chunk_start = log.events.len();
    let target = log.events.len() + events;
    while log.events.len() < target {
        // a chunk: fresh pools, fresh id table (keeps the Bind rule's cost bounded)
        log.reset();
        let atom_len = [1usize, 5, 16, 33, 129][rng.gen_range(0..5)];
        let mut p: Pools<C> = Pools { sks: vec![], pks: vec![], sigs: vec![], pops: vec![], atoms: vec![] };
        for i in 0..5 {
            let mut b = vec![0u8; atom_len];
            rng.fill(&mut b[..]);
            b[0] = (b[0] & 0xF0) | i as u8;
            p.atoms.push((format!("m{}", i), b));
        }
        // keys: small integers (incl. r-1, r-2) and hash-derived ones
        let nk = rng.gen_range(2..5);
        for j in 0..nk {
            let (sk, ev): (SecretKey<C>, Value) = if rng.gen_bool(0.5) {
                let k = [1i64, 2, 3, -1, -2][rng.gen_range(0..5)];
                (SecretKey::<C>(sc::<C>(k)), json!({"ev": "Sk", "kind": "int", "k": k, "atom": ""}))
            } else {
                let name = format!("h{}", j);
                let mut ikm = vec![0u8; [0usize, 1, 32, 33, 100][rng.gen_range(0..5)]];
                rng.fill(&mut ikm[..]);
                ikm.push(j as u8);
                (SecretKey::<C>::from_hash(&ikm), json!({"ev": "Sk", "kind": "hash", "k": 0, "atom": name}))
            };
            let id = log.id("sk", &sk.to_be_bytes());
            let mut ev = ev;
            ev["out"] = json!(id);
            log.ev(ev);
            let pk = sk.public_key();
            let pid = log.id("pk", &Vec::<u8>::from(&pk));
            log.ev(json!({"ev": "Pk", "sk": id, "out": pid}));
            p.sks.push((id, sk));
            p.pks.push((pid, pk));
        }
        // a long list leaves very large symbolic sums in the value table, which TLC re-fingerprints at every
        // step: the chunk ends right after such an episode
        let mut big_done = false;
        while log.events.len() < target && log.events.len() - chunk_start < 400 && !big_done {
            let roll = rng.gen_range(0..100);
            let want_pop = mix == "pop";
            let want_agg = mix == "agg";
            let want_multi = mix == "multi";
            if roll < 25 || p.sigs.is_empty() {
                // Sign
                let i = rng.gen_range(0..p.sks.len());
                let scheme = ["Basic", "Aug", "Pop"][rng.gen_range(0..3)];
                let (mr, mb) = rand_msg(&mut rng, &p);
                let r = p.sks[i].1.sign(scheme_of(scheme), &mb);
                match &r {
                    Ok(s) => {
                        let id = log.id("sig", &sig_bytes(s));
                        log.ev(json!({"ev": "Sign", "sk": p.sks[i].0, "scheme": scheme, "msg": mr, "res": "Ok", "out": id}));
                        p.sigs.push((id, *s, Some((i, mr, mb))));
                    }
                    Err(_) => log.ev(json!({"ev": "Sign", "sk": p.sks[i].0, "scheme": scheme, "msg": mr, "res": "Err", "out": ""})),
                }
            } else if roll < 50 {
                // Verify: half honest, half arbitrary
                let si = rng.gen_range(0..p.sigs.len());
                let (sid, sig, prov) = p.sigs[si].clone();
                let (pi, mr, mb) = match (&prov, rng.gen_bool(0.5)) {
                    (Some((pi, mr, mb)), true) => (*pi, mr.clone(), mb.clone()),
                    _ => {
                        let (mr, mb) = rand_msg(&mut rng, &p);
                        (rng.gen_range(0..p.pks.len()), mr, mb)
                    }
                };
                let r = sig.verify(&p.pks[pi].1, &mb);
                log.ev(json!({"ev": "Verify", "pk": p.pks[pi].0, "sig": sid, "msg": mr, "res": res_str(&r)}));
            } else if roll < 62 {
                // adversary derivation on a signature
                let si = rng.gen_range(0..p.sigs.len());
                let (sid, sig, _) = p.sigs[si].clone();
                let lab = sig_label(&sig);
                let pt = *sig.as_raw_value();
                let op = ["Neg", "AddGen", "Scale", "Relabel", "Identity", "SumSig"][rng.gen_range(0..6)];
                let (npt, nlab, arg): (<C as Pairing>::Signature, &str, Value) = match op {
                    "Neg" => (-pt, lab, json!("")),
                    "AddGen" => (pt + <C as Pairing>::Signature::generator(), lab, json!("")),
                    "Scale" => (pt + pt, lab, json!("")),
                    "Relabel" => {
                        let s = ["Basic", "Aug", "Pop"][rng.gen_range(0..3)];
                        (pt, s, json!(s))
                    }
                    "Identity" => (<C as Pairing>::Signature::identity(), lab, json!("")),
                    _ => {
                        let sj = rng.gen_range(0..p.sigs.len());
                        (pt + *p.sigs[sj].1.as_raw_value(), lab, json!(p.sigs[sj].0))
                    }
                };
                let ns = wrap_sig::<C>(nlab, npt);
                let nid = log.id("sig", &sig_bytes(&ns));
                log.ev(json!({"ev": "SigOp", "op": op, "of": sid, "arg": arg, "out": nid}));
                p.sigs.push((nid, ns, None));
            } else if roll < 70 {
                // adversary derivation on a public key
                let pi = rng.gen_range(0..p.pks.len());
                let (pid, pk) = p.pks[pi].clone();
                let op = ["Neg", "AddGen", "Identity", "SumPk"][rng.gen_range(0..4)];
                let (npk, arg): (<C as Pairing>::PublicKey, Value) = match op {
                    "Neg" => (-pk.0, json!("")),
                    "AddGen" => (pk.0 + <C as Pairing>::PublicKey::generator(), json!("")),
                    "Identity" => (<C as Pairing>::PublicKey::identity(), json!("")),
                    _ => {
                        let pj = rng.gen_range(0..p.pks.len());
                        (pk.0 + p.pks[pj].1 .0, json!(p.pks[pj].0))
                    }
                };
                let npk = PublicKey::<C>(npk);
                let nid = log.id("pk", &Vec::<u8>::from(&npk));
                log.ev(json!({"ev": "PkOp", "op": op, "of": pid, "arg": arg, "out": nid}));
                p.pks.push((nid, npk));
            } else if roll < 78 || want_pop {
                // proof of possession
                if p.pops.is_empty() || rng.gen_bool(0.4) {
                    let i = rng.gen_range(0..p.sks.len());
                    let r = p.sks[i].1.proof_of_possession();
                    match &r {
                        Ok(pp) => {
                            let id = log.id("pop", &Vec::<u8>::from(pp));
                            log.ev(json!({"ev": "PopProve", "sk": p.sks[i].0, "res": "Ok", "out": id}));
                            p.pops.push((id, *pp, i));
                        }
                        Err(_) => log.ev(json!({"ev": "PopProve", "sk": p.sks[i].0, "res": "Err", "out": ""})),
                    }
                } else {
                    let j = rng.gen_range(0..p.pops.len());
                    let (id, pp, owner) = p.pops[j].clone();
                    let pi = if rng.gen_bool(0.5) { owner } else { rng.gen_range(0..p.pks.len()) };
                    let r = pp.verify(p.pks[pi].1);
                    log.ev(json!({"ev": "PopVerify", "pk": p.pks[pi].0, "pop": id, "res": res_str(&r)}));
                    // the same point presented as a signature over the key bytes, and vice versa
                    if rng.gen_bool(0.3) {
                        let lab = ["Basic", "Aug", "Pop"][rng.gen_range(0..3)];
                        let s = wrap_sig::<C>(lab, pp.0);
                        let sid = log.id("sig", &sig_bytes(&s));
                        log.ev(json!({"ev": "PopAsSig", "of": id, "arg": lab, "out": sid}));
                        p.sigs.push((sid, s, None));
                    }
                }
            } else if roll < 90 || want_agg {
                // aggregate n honest signatures of one scheme (sometimes mixed), then verify a (perturbed) list;
                // one list in ten is long (8..64 pairs: more pairing terms than any batching boundary)
                let n = if rng.gen_range(0..10) == 0 { rng.gen_range(8..65) } else { rng.gen_range(1..6) };
                big_done = n >= 8;
                let scheme = ["Basic", "Aug", "Pop"][rng.gen_range(0..3)];
                let mut sids = vec![];
                let mut sigs = vec![];
                let mut pairs: Vec<(usize, Vec<Value>, Vec<u8>)> = vec![];
                for _ in 0..n {
                    let i = rng.gen_range(0..nk);
                    let s2 = if rng.gen_range(0..12) == 0 { ["Basic", "Aug", "Pop"][rng.gen_range(0..3)] } else { scheme };
                    let (mr, mb) = rand_msg(&mut rng, &p);
                    let s = p.sks[i].1.sign(scheme_of(s2), &mb).unwrap();
                    let id = log.id("sig", &sig_bytes(&s));
                    log.ev(json!({"ev": "Sign", "sk": p.sks[i].0, "scheme": s2, "msg": mr, "res": "Ok", "out": id}));
                    sids.push(id);
                    sigs.push(s);
                    pairs.push((i, mr, mb));
                }
                let r = AggregateSignature::<C>::from_signatures(&sigs);
                match &r {
                    Ok(a) => {
                        let id = log.id("agg", &Vec::<u8>::from(a));
                        log.ev(json!({"ev": "Aggregate", "sigs": sids, "res": "Ok", "out": id}));
                        // perturb the list
                        match rng.gen_range(0..6) {
                            0 => pairs.reverse(),
                            1 if pairs.len() > 1 => {
                                pairs.remove(rng.gen_range(0..pairs.len()));
                            }
                            2 => {
                                let j = rng.gen_range(0..pairs.len());
                                pairs[j].0 = rng.gen_range(0..p.pks.len());
                            }
                            3 => {
                                let j = rng.gen_range(0..pairs.len());
                                let (mr, mb) = rand_msg(&mut rng, &p);
                                pairs[j].1 = mr;
                                pairs[j].2 = mb;
                            }
                            _ => {}
                        }
                        let data: Vec<(PublicKey<C>, Vec<u8>)> = pairs.iter().map(|(i, _, mb)| (p.pks[*i].1, mb.clone())).collect();
                        let rv = a.verify(&data);
                        let pj: Vec<Value> = pairs.iter().map(|(i, mr, _)| json!({"pk": p.pks[*i].0, "msg": mr})).collect();
                        log.ev(json!({"ev": "AggVerify", "agg": id, "pairs": pj, "res": res_str(&rv)}));
                    }
                    Err(_) => log.ev(json!({"ev": "Aggregate", "sigs": sids, "res": "Err", "out": ""})),
                }
            } else if roll < 100 || want_multi {
                // multi-signature over one message
                let n = if rng.gen_range(0..10) == 0 { rng.gen_range(8..65) } else { rng.gen_range(1..6) };
                big_done = n >= 8;
                let scheme = ["Basic", "Pop", "Pop", "Aug"][rng.gen_range(0..4)];
                let (mr, mb) = rand_msg(&mut rng, &p);
                let mut sids = vec![];
                let mut sigs = vec![];
                let mut signers = vec![];
                for _ in 0..n {
                    let i = rng.gen_range(0..nk);
                    let s2 = if rng.gen_range(0..12) == 0 { ["Basic", "Aug", "Pop"][rng.gen_range(0..3)] } else { scheme };
                    let s = p.sks[i].1.sign(scheme_of(s2), &mb).unwrap();
                    let id = log.id("sig", &sig_bytes(&s));
                    log.ev(json!({"ev": "Sign", "sk": p.sks[i].0, "scheme": s2, "msg": mr, "res": "Ok", "out": id}));
                    sids.push(id);
                    sigs.push(s);
                    signers.push(i);
                }
                let r = MultiSignature::<C>::from_signatures(&sigs);
                match &r {
                    Ok(ms) => {
                        let id = log.id("msig", &Vec::<u8>::from(ms));
                        log.ev(json!({"ev": "Accumulate", "sigs": sids, "res": "Ok", "out": id}));
                        match rng.gen_range(0..5) {
                            0 if signers.len() > 1 => {
                                signers.remove(rng.gen_range(0..signers.len()));
                            }
                            1 => signers.push(rng.gen_range(0..p.pks.len())),
                            2 => {
                                let j = rng.gen_range(0..signers.len());
                                signers[j] = rng.gen_range(0..p.pks.len());
                            }
                            _ => {}
                        }
                        let pks: Vec<PublicKey<C>> = signers.iter().map(|i| p.pks[*i].1).collect();
                        let mpk = MultiPublicKey::<C>::from_public_keys(&pks);
                        let mid = log.id("mpk", &Vec::<u8>::from(&mpk));
                        let pids: Vec<&String> = signers.iter().map(|i| &p.pks[*i].0).collect();
                        log.ev(json!({"ev": "MultiKey", "pks": pids, "out": mid}));
                        let (mr2, mb2) = if rng.gen_bool(0.8) { (mr.clone(), mb.clone()) } else { rand_msg(&mut rng, &p) };
                        let rv = ms.verify(mpk, &mb2);
                        log.ev(json!({"ev": "MultiVerify", "msig": id, "mpk": mid, "msg": mr2, "res": res_str(&rv)}));
                    }
                    Err(_) => log.ev(json!({"ev": "Accumulate", "sigs": sids, "res": "Err", "out": ""})),
                }
            }
        }
        chunk_start = log.events.len();
    }
}

#[allow(dead_code)]
pub fn enc_pt<G: GroupEncoding>(g: &G) -> Vec<u8> {
    g.to_bytes().as_ref().to_vec()
}

/// the tag constants the library exposes, as a trace for TLC (spec/Trace_Tags.tla)
pub fn drive_constants<C: BlsSignatureImpl>(log: &mut Log) {
    let g = log.group.clone();
    let mut put = |name: &str, v: &[u8]| log.ev(json!({"ev": "Const", "group": g, "name": name, "value": String::from_utf8_lossy(v)}));
    put("NUL", <C as BlsSignatureBasic>::DST);
    put("AUG", <C as BlsSignatureMessageAugmentation>::DST);
    put("POP", <C as BlsSignaturePop>::SIG_DST);
    put("POPPROOF", <C as BlsSignaturePop>::POP_DST);
    put("ENC", <C as BlsElGamal>::ENC_DST);
}

// ------------------------------------------------------------------ protocol walk (spec/Trace_Proto.tla)
struct Deal<C: BlsSignatureImpl> {
    owner: usize,
    t: usize,
    shares: Vec<(String, SecretKeyShare<C>)>,
    pkshares: Vec<Option<(String, PublicKeyShare<C>)>>,
}

fn msg_of(n: usize, tag: u8) -> Vec<u8> {
    (0..n).map(|i| (i as u8).wrapping_mul(31).wrapping_add(tag)).collect()
}

pub fn drive_proto<C>(log: &mut Log, seed: u64, events: usize)
where
    C: BlsSignatureImpl + PartialEq + Eq + std::fmt::Debug + Clone,
{
    use blsful::vsss_rs::Share;
    let mut rng = ChaCha8Rng::seed_from_u64(seed ^ 0x9a07_0c01);
    let target = log.events.len() + events;
    let mut atomno = 0u64;
    while log.events.len() < target {
        log.reset();
        let chunk_start = log.events.len();
        let atom_len = [1usize, 5, 16, 33][rng.gen_range(0..4)];
        let mut p: Pools<C> = Pools { sks: vec![], pks: vec![], sigs: vec![], pops: vec![], atoms: vec![] };
        for i in 0..4 {
            let mut b = vec![0u8; atom_len];
            rng.fill(&mut b[..]);
            b[0] = (b[0] & 0xF0) | i as u8;
            p.atoms.push((format!("m{}", i), b));
        }
        let nk = rng.gen_range(2..4);
        for j in 0..nk {
            let (sk, ev): (SecretKey<C>, Value) = if rng.gen_bool(0.4) {
                let k = [1i64, 2, 3, -1, -2][rng.gen_range(0..5)];
                (SecretKey::<C>(sc::<C>(k)), json!({"ev": "Sk", "kind": "int", "k": k, "atom": ""}))
            } else {
                (SecretKey::<C>::from_hash(format!("proto-{seed}-{j}-{}", log.events.len())), json!({"ev": "Sk", "kind": "hash", "k": 0, "atom": format!("h{}", j)}))
            };
            let id = log.id("sk", &sk.to_be_bytes());
            let mut ev = ev;
            ev["out"] = json!(id);
            log.ev(ev);
            let pk = sk.public_key();
            let pid = log.id("pk", &Vec::<u8>::from(&pk));
            log.ev(json!({"ev": "Pk", "sk": id, "out": pid}));
            p.sks.push((id, sk));
            p.pks.push((pid, pk));
        }
        let nk = p.sks.len();
        let mut deals: Vec<Deal<C>> = vec![];
        let mut sigshares: Vec<(String, SignatureShare<C>, usize, usize)> = vec![]; // id, share, deal, participant
        let mut tlcts: Vec<(String, TimeCryptCiphertext<C>, Vec<u8>)> = vec![];
        let mut sccts: Vec<(String, SignCryptCiphertext<C>, Vec<u8>, usize)> = vec![];
        let mut dshares: Vec<(String, SignDecryptionShare<C>, usize)> = vec![]; // id, share, sc ct index
        let mut egcts: Vec<(String, ElGamalCiphertext<C>)> = vec![];
        while log.events.len() < target && log.events.len() - chunk_start < 260 {
            let roll = rng.gen_range(0..100);
            if roll < 8 || p.sigs.is_empty() {
                let i = rng.gen_range(0..nk);
                let scheme = ["Basic", "Aug", "Pop"][rng.gen_range(0..3)];
                let (mr, mb) = rand_msg(&mut rng, &p);
                let s = p.sks[i].1.sign(scheme_of(scheme), &mb).unwrap();
                let id = log.id("sig", &sig_bytes(&s));
                log.ev(json!({"ev": "Sign", "sk": p.sks[i].0, "scheme": scheme, "msg": mr, "res": "Ok", "out": id}));
                p.sigs.push((id, s, Some((i, mr, mb))));
            } else if roll < 16 {
                // deal: parameters in and out of range
                let i = rng.gen_range(0..nk);
                let (t, n) = [(2usize, 2usize), (2, 3), (3, 3), (2, 4), (3, 5), (4, 6), (1, 3), (3, 2), (2, 5)][rng.gen_range(0..9)];
                let r = p.sks[i].1.split(t, n);
                atomno += 1;
                let dname = format!("d{}", atomno);
                match r {
                    Ok(sh) => {
                        let ids: Vec<String> = sh.iter().map(|s| log.id("skshare", &Vec::<u8>::from(s))).collect();
                        log.ev(json!({"ev": "Split", "sk": p.sks[i].0, "t": t, "n": n, "deal": dname, "res": "Ok", "outs": ids}));
                        let l = sh.len();
                        deals.push(Deal { owner: i, t, shares: ids.into_iter().zip(sh.into_iter()).collect(), pkshares: vec![None; l] });
                    }
                    Err(_) => log.ev(json!({"ev": "Split", "sk": p.sks[i].0, "t": t, "n": n, "deal": dname, "res": "Err", "outs": []})),
                }
            } else if deals.is_empty() {
                continue;
            } else if roll < 24 {
                let d = rng.gen_range(0..deals.len());
                let j = rng.gen_range(0..deals[d].shares.len());
                let pks = deals[d].shares[j].1.public_key().unwrap();
                let id = log.id("pkshare", &Vec::<u8>::from(&pks));
                log.ev(json!({"ev": "PkShare", "share": deals[d].shares[j].0, "out": id}));
                deals[d].pkshares[j] = Some((id, pks));
            } else if roll < 36 {
                let d = rng.gen_range(0..deals.len());
                let j = rng.gen_range(0..deals[d].shares.len());
                let scheme = ["Basic", "Pop", "Pop", "Aug"][rng.gen_range(0..4)];
                let (mr, mb) = rand_msg(&mut rng, &p);
                match deals[d].shares[j].1.sign(scheme_of(scheme), &mb) {
                    Ok(s) => {
                        let id = log.id("sigshare", &Vec::<u8>::from(&s));
                        log.ev(json!({"ev": "PartialSign", "share": deals[d].shares[j].0, "scheme": scheme, "msg": mr, "res": "Ok", "out": id}));
                        sigshares.push((id, s, d, j));
                        // sometimes verify it against a key share of the same deal
                        if let Some(Some((pid, pks))) = deals[d].pkshares.get(rng.gen_range(0..deals[d].pkshares.len())) {
                            let (mr2, mb2) = if rng.gen_bool(0.7) { (mr.clone(), mb.clone()) } else { rand_msg(&mut rng, &p) };
                            let r = pks.verify(&s, &mb2);
                            let sid = sigshares.last().unwrap().0.clone();
                            log.ev(json!({"ev": "PartialVerify", "pkshare": pid, "sigshare": sid, "msg": mr2, "res": res_str(&r)}));
                        }
                    }
                    Err(_) => log.ev(json!({"ev": "PartialSign", "share": deals[d].shares[j].0, "scheme": scheme, "msg": mr, "res": "Err", "out": ""})),
                }
            } else if roll < 46 {
                // all participants of a deal sign one message; a random subset / order is recombined
                let d = rng.gen_range(0..deals.len());
                let scheme = ["Basic", "Pop"][rng.gen_range(0..2)];
                let (mr, mb) = rand_msg(&mut rng, &p);
                let mut parts = vec![];
                for j in 0..deals[d].shares.len() {
                    let s = deals[d].shares[j].1.sign(scheme_of(scheme), &mb).unwrap();
                    let id = log.id("sigshare", &Vec::<u8>::from(&s));
                    log.ev(json!({"ev": "PartialSign", "share": deals[d].shares[j].0, "scheme": scheme, "msg": mr, "res": "Ok", "out": id}));
                    parts.push((id, s));
                }
                let n = parts.len();
                let cnt = [deals[d].t.saturating_sub(1), deals[d].t, (deals[d].t + 1).min(n), n, 1, 0][rng.gen_range(0..6)];
                let mut idx: Vec<usize> = (0..n).collect();
                for i in (1..n).rev() {
                    idx.swap(i, rng.gen_range(0..i + 1));
                }
                idx.truncate(cnt);
                if rng.gen_range(0..8) == 0 && !idx.is_empty() {
                    idx.push(idx[0]); // duplicate
                }
                let chosen: Vec<SignatureShare<C>> = idx.iter().map(|i| parts[*i].1).collect();
                let cids: Vec<&String> = idx.iter().map(|i| &parts[*i].0).collect();
                match Signature::<C>::from_shares(&chosen) {
                    Ok(s) => {
                        let id = log.id("sig", &sig_bytes(&s));
                        log.ev(json!({"ev": "CombineSig", "shares": cids, "res": "Ok", "out": id}));
                        p.sigs.push((id, s, None));
                    }
                    Err(_) => log.ev(json!({"ev": "CombineSig", "shares": cids, "res": "Err", "out": ""})),
                }
                // the whole-key signature over the same message, for the Bind rule to compare with
                let w = p.sks[deals[d].owner].1.sign(scheme_of(scheme), &mb).unwrap();
                let wid = log.id("sig", &sig_bytes(&w));
                log.ev(json!({"ev": "Sign", "sk": p.sks[deals[d].owner].0, "scheme": scheme, "msg": mr, "res": "Ok", "out": wid}));
                p.sigs.push((wid, w, Some((deals[d].owner, mr, mb))));
            } else if roll < 52 {
                // recombine key / public key from a random subset
                let d = rng.gen_range(0..deals.len());
                let n = deals[d].shares.len();
                let cnt = [deals[d].t.saturating_sub(1), deals[d].t, n, 1][rng.gen_range(0..4)].max(0);
                let mut idx: Vec<usize> = (0..n).collect();
                for i in (1..n).rev() {
                    idx.swap(i, rng.gen_range(0..i + 1));
                }
                idx.truncate(cnt);
                if rng.gen_bool(0.5) {
                    let chosen: Vec<SecretKeyShare<C>> = idx.iter().map(|i| deals[d].shares[*i].1.clone()).collect();
                    let cids: Vec<&String> = idx.iter().map(|i| &deals[d].shares[*i].0).collect();
                    match SecretKey::<C>::combine(&chosen) {
                        Ok(k) => {
                            let id = log.id("sk", &k.to_be_bytes());
                            log.ev(json!({"ev": "CombineKey", "shares": cids, "res": "Ok", "out": id}));
                        }
                        Err(_) => log.ev(json!({"ev": "CombineKey", "shares": cids, "res": "Err", "out": ""})),
                    }
                } else {
                    let mut chosen = vec![];
                    let mut cids = vec![];
                    for i in idx {
                        if deals[d].pkshares[i].is_none() {
                            let pks = deals[d].shares[i].1.public_key().unwrap();
                            let id = log.id("pkshare", &Vec::<u8>::from(&pks));
                            log.ev(json!({"ev": "PkShare", "share": deals[d].shares[i].0, "out": id}));
                            deals[d].pkshares[i] = Some((id, pks));
                        }
                        let (id, s) = deals[d].pkshares[i].clone().unwrap();
                        chosen.push(s);
                        cids.push(id);
                    }
                    match PublicKey::<C>::from_shares(&chosen) {
                        Ok(k) => {
                            let id = log.id("pk", &Vec::<u8>::from(&k));
                            log.ev(json!({"ev": "CombinePk", "shares": cids, "res": "Ok", "out": id}));
                        }
                        Err(_) => log.ev(json!({"ev": "CombinePk", "shares": cids, "res": "Err", "out": ""})),
                    }
                }
            } else if roll < 62 {
                // time-lock: seal for a key and identifier, then try to open with some signature
                let i = rng.gen_range(0..p.pks.len().min(nk));
                let scheme = ["Basic", "Aug", "Pop"][rng.gen_range(0..3)];
                let (idr, idb) = rand_msg(&mut rng, &p);
                let n = [0usize, 1, 5, 31, 32, 100][rng.gen_range(0..6)];
                let m = msg_of(n, 7);
                atomno += 1;
                match p.pks[i].1.encrypt_time_lock(scheme_of(scheme), &m, &idb) {
                    Ok(ct) => {
                        let id = log.id("tlct", &Vec::<u8>::from(&ct));
                        log.ev(json!({"ev": "TLSeal", "pk": p.pks[i].0, "scheme": scheme, "id": idr, "n": n, "atom": format!("tr{}", atomno), "res": "Ok", "len": ct.w.len(), "out": id}));
                        // the signature that opens it
                        let s = p.sks[i].1.sign(scheme_of(scheme), &idb).unwrap();
                        let sid = log.id("sig", &sig_bytes(&s));
                        log.ev(json!({"ev": "Sign", "sk": p.sks[i].0, "scheme": scheme, "msg": idr, "res": "Ok", "out": sid}));
                        p.sigs.push((sid, s, Some((i, idr, idb))));
                        tlcts.push((id, ct, m));
                    }
                    Err(_) => log.ev(json!({"ev": "TLSeal", "pk": p.pks[i].0, "scheme": scheme, "id": idr, "n": n, "atom": "", "res": "Err", "len": 0, "out": ""})),
                }
            } else if roll < 72 && !tlcts.is_empty() {
                let c = rng.gen_range(0..tlcts.len());
                // mostly recent signatures (the opener is among them), sometimes any
                let si = if rng.gen_bool(0.6) { p.sigs.len() - 1 - rng.gen_range(0..p.sigs.len().min(4)) } else { rng.gen_range(0..p.sigs.len()) };
                let r: Option<Vec<u8>> = tlcts[c].1.decrypt(&p.sigs[si].1).into();
                let res = match &r {
                    None => "None",
                    Some(m) if *m == tlcts[c].2 => "Some",
                    Some(_) => "SomeOther",
                };
                log.ev(json!({"ev": "TLDecrypt", "ct": tlcts[c].0, "sig": p.sigs[si].0, "res": res}));
                // an altered copy of the ciphertext presented with the same signature
                if rng.gen_bool(0.5) {
                    let mut t = tlcts[c].1.clone();
                    let nlen = tlcts[c].2.len();
                    let mut tidx = String::new();
                    let (op, arg): (&str, String) = match rng.gen_range(0..8) {
                        0 => { t.u = -t.u; ("UNeg", String::new()) }
                        1 => { t.u += <C as Pairing>::PublicKey::generator(); ("UAddGen", String::new()) }
                        2 => { t.u = <C as Pairing>::PublicKey::identity(); ("UId", String::new()) }
                        3 => { let b = rng.gen_range(0..256); t.v[b / 8] ^= 1 << (b % 8); tidx = format!("bit{b};"); ("VFlip", String::new()) }
                        4 => { let b = rng.gen_range(0..7); t.w[0] ^= 1 << b; tidx = format!("bit{b};"); ("W", "flip-prefix".to_string()) }
                        5 => { t.w.push(0x33); ("W", "extend".to_string()) }
                        6 if nlen > 0 => { t.w[1] ^= 0x10; ("W", "flip-message".to_string()) }
                        _ => {
                            let cur = scheme_name(t.scheme);
                            let others: Vec<&str> = ["Basic", "Aug", "Pop"].iter().copied().filter(|x| *x != cur).collect();
                            let s2 = others[rng.gen_range(0..2)];
                            t.scheme = scheme_of(s2);
                            ("Relabel", s2.to_string())
                        }
                    };
                    let tid = log.id("tlct", &Vec::<u8>::from(&t));
                    log.ev(json!({"ev": "TLTamper", "of": tlcts[c].0, "op": op, "arg": arg, "tid": tidx, "out": tid}));
                    let r: Option<Vec<u8>> = t.decrypt(&p.sigs[si].1).into();
                    let res = match &r {
                        None => "None",
                        Some(m) if *m == tlcts[c].2 => "Some",
                        Some(_) => "SomeOther",
                    };
                    log.ev(json!({"ev": "TLDecrypt", "ct": tid, "sig": p.sigs[si].0, "res": res}));
                }
            } else if roll < 80 {
                // signcryption
                let i = rng.gen_range(0..nk);
                let scheme = ["Basic", "Aug", "Pop"][rng.gen_range(0..3)];
                let n = [0usize, 1, 5, 31, 32, 100][rng.gen_range(0..6)];
                let m = msg_of(n, 9);
                atomno += 1;
                let ct = p.pks[i].1.sign_crypt(scheme_of(scheme), &m);
                let id = log.id("scct", &Vec::<u8>::from(&ct));
                log.ev(json!({"ev": "SCSeal", "pk": p.pks[i].0, "scheme": scheme, "n": n, "atom": format!("sr{}", atomno), "len": ct.v.len(), "out": id}));
                log.ev(json!({"ev": "SCValid", "ct": id, "res": bool::from(ct.is_valid())}));
                let k = if rng.gen_bool(0.6) { i } else { rng.gen_range(0..nk) };
                let r: Option<Vec<u8>> = ct.decrypt(&p.sks[k].1).into();
                let res = match &r {
                    None => "None",
                    Some(x) if *x == m => "Some",
                    Some(_) => "SomeOther",
                };
                log.ev(json!({"ev": "SCDecrypt", "ct": id, "sk": p.sks[k].0, "res": res}));
                // the adversary alters the ciphertext the recipient has just used; the recipient sees the altered one
                if rng.gen_bool(0.6) {
                    let mut t = ct.clone();
                    let mut tidx = String::new();
                    let (op, arg): (&str, String) = match rng.gen_range(0..10) {
                        0 => { t.u = -t.u; ("UNeg", String::new()) }
                        1 => { t.u += <C as Pairing>::PublicKey::generator(); ("UAddGen", String::new()) }
                        2 => { t.u = <C as Pairing>::PublicKey::identity(); ("UId", String::new()) }
                        3 => { t.w = -t.w; ("WNeg", String::new()) }
                        4 => { t.w += <C as Pairing>::Signature::generator(); ("WAddGen", String::new()) }
                        5 => { t.w = <C as Pairing>::Signature::identity(); ("WId", String::new()) }
                        6 => { t.u = <C as Pairing>::PublicKey::identity(); t.w = <C as Pairing>::Signature::identity(); ("UWId", String::new()) }
                        7 => { let b = rng.gen_range(0..8); t.v[0] ^= 1 << b; tidx = format!("bit{b};"); ("VFlip", "prefix".to_string()) }
                        8 => { t.v.push(0); ("VExtend", String::new()) }
                        _ => {
                            let others: Vec<&str> = ["Basic", "Aug", "Pop"].iter().copied().filter(|x| *x != scheme).collect();
                            let s2 = others[rng.gen_range(0..2)];
                            t.scheme = scheme_of(s2);
                            ("Relabel", s2.to_string())
                        }
                    };
                    let tid = log.id("scct", &Vec::<u8>::from(&t));
                    log.ev(json!({"ev": "SCTamper", "of": id, "op": op, "arg": arg, "tid": tidx, "out": tid}));
                    log.ev(json!({"ev": "SCValid", "ct": tid, "res": bool::from(t.is_valid())}));
                    let r: Option<Vec<u8>> = t.decrypt(&p.sks[i].1).into();
                    let res = match &r {
                        None => "None",
                        Some(x) if *x == m => "Some",
                        Some(_) => "SomeOther",
                    };
                    log.ev(json!({"ev": "SCDecrypt", "ct": tid, "sk": p.sks[i].0, "res": res}));
                }
                sccts.push((id, ct, m, i));
            } else if roll < 90 && !sccts.is_empty() {
                // threshold decryption of a signcryption ciphertext by a deal of the recipient key (or of another key)
                let c = rng.gen_range(0..sccts.len());
                let cands: Vec<usize> = (0..deals.len()).filter(|d| deals[*d].owner == sccts[c].3).collect();
                let d = if !cands.is_empty() && rng.gen_bool(0.8) { cands[rng.gen_range(0..cands.len())] } else { rng.gen_range(0..deals.len()) };
                let n = deals[d].shares.len();
                let mut made = vec![];
                for j in 0..n {
                    let ds = sccts[c].1.create_decryption_share(&deals[d].shares[j].1).unwrap();
                    let id = log.id("dshare", &Vec::<u8>::from(&ds));
                    log.ev(json!({"ev": "SCDecShare", "ct": sccts[c].0, "share": deals[d].shares[j].0, "out": id}));
                    made.push((id.clone(), ds.clone()));
                    dshares.push((id, ds, c));
                }
                // verify one share against some key share of the deal
                let j = rng.gen_range(0..n);
                let kx = if rng.gen_bool(0.6) { j } else { rng.gen_range(0..n) };
                if deals[d].pkshares[kx].is_none() {
                    let pks = deals[d].shares[kx].1.public_key().unwrap();
                    let id = log.id("pkshare", &Vec::<u8>::from(&pks));
                    log.ev(json!({"ev": "PkShare", "share": deals[d].shares[kx].0, "out": id}));
                    deals[d].pkshares[kx] = Some((id, pks));
                }
                let (pid, pks) = deals[d].pkshares[kx].clone().unwrap();
                let target_ct = if rng.gen_bool(0.8) { c } else { rng.gen_range(0..sccts.len()) };
                let r = made[j].1.verify(&pks, &sccts[target_ct].1);
                log.ev(json!({"ev": "SCShareVerify", "dshare": made[j].0, "pkshare": pid, "ct": sccts[target_ct].0, "res": res_str(&r)}));
                // decrypt with a random subset
                let cnt = [deals[d].t.saturating_sub(1), deals[d].t, n, 1][rng.gen_range(0..4)];
                let mut idx: Vec<usize> = (0..n).collect();
                for i in (1..n).rev() {
                    idx.swap(i, rng.gen_range(0..i + 1));
                }
                idx.truncate(cnt);
                let chosen: Vec<SignDecryptionShare<C>> = idx.iter().map(|i| made[*i].1.clone()).collect();
                let cids: Vec<&String> = idx.iter().map(|i| &made[*i].0).collect();
                let r: Option<Vec<u8>> = sccts[c].1.decrypt_with_shares(&chosen).into();
                let res = match &r {
                    None => "None",
                    Some(x) if *x == sccts[c].2 => "Some",
                    Some(_) => "SomeOther",
                };
                log.ev(json!({"ev": "SCDecryptShares", "ct": sccts[c].0, "shares": cids, "res": res}));
            } else if roll >= 95 {
                // proofs of knowledge of a signature: interactive and timestamped (virtual clock)
                let si = rng.gen_range(0..p.sigs.len());
                let (sid, sig, prov) = p.sigs[si].clone();
                let (pi, mr, mb) = match prov {
                    Some((pi, mr, mb)) => (pi, mr, mb),
                    None => {
                        let (mr, mb) = rand_msg(&mut rng, &p);
                        (rng.gen_range(0..nk), mr, mb)
                    }
                };
                atomno += 1;
                if rng.gen_bool(0.5) {
                    if let Ok((c, x)) = ProofCommitment::<C>::generate(&mb, sig) {
                        let cid = log.id("pokc", &Vec::<u8>::from(&c));
                        log.ev(json!({"ev": "PokCommit", "sig": sid, "msg": mr, "atom": format!("px{}", atomno), "out": cid}));
                        let (y, yev) = match rng.gen_range(0..4) {
                            0 => (ProofCommitmentChallenge::<C>(sc::<C>(3)), json!({"ev": "PokChallenge", "kind": "int", "k": 3, "atom": ""})),
                            1 => (ProofCommitmentChallenge::<C>(sc::<C>(0)), json!({"ev": "PokChallenge", "kind": "zero", "k": 0, "atom": ""})),
                            2 => (ProofCommitmentChallenge::<C>::from_hash(format!("y{}", atomno % 3)), json!({"ev": "PokChallenge", "kind": "hash", "k": 0, "atom": format!("yh{}", atomno % 3)})),
                            _ => (ProofCommitmentChallenge::<C>::new(), json!({"ev": "PokChallenge", "kind": "random", "k": 0, "atom": format!("yr{}", atomno)})),
                        };
                        let yid = log.id("poky", &y.to_be_bytes());
                        let mut yev = yev;
                        yev["out"] = json!(yid);
                        log.ev(yev);
                        // finalize with the right signature, sometimes with another one
                        let (fsid, fsig) = if rng.gen_bool(0.8) { (sid.clone(), sig) } else { let j = rng.gen_range(0..p.sigs.len()); (p.sigs[j].0.clone(), p.sigs[j].1) };
                        match c.finalize(x, y.clone(), fsig) {
                            Ok(pf) => {
                                let pid = log.id("pok", &Vec::<u8>::from(&pf));
                                log.ev(json!({"ev": "PokFinalize", "commit": cid, "y": yid, "sig": fsid, "res": "Ok", "out": pid}));
                                let vk = if rng.gen_bool(0.7) { pi } else { rng.gen_range(0..p.pks.len()) };
                                let (mr2, mb2) = if rng.gen_bool(0.8) { (mr.clone(), mb.clone()) } else { rand_msg(&mut rng, &p) };
                                let r = pf.verify(p.pks[vk].1, &mb2, y);
                                log.ev(json!({"ev": "PokVerify", "proof": pid, "pk": p.pks[vk].0, "y": yid, "msg": mr2, "res": res_str(&r)}));
                            }
                            Err(_) => log.ev(json!({"ev": "PokFinalize", "commit": cid, "y": yid, "sig": fsid, "res": "Err", "out": ""})),
                        }
                    }
                } else {
                    #[cfg(feature = "hooks")]
                    {
                        let base = 1_000_000u64 + rng.gen_range(0..1000);
                        blsful::verif_hooks::set_virtual_now_ms(Some(base));
                        let g = ProofOfKnowledgeTimestamp::<C>::generate(&mb, sig);
                        if let Ok(pt) = g {
                            let pid = log.id("pokts", &Vec::<u8>::from(&pt));
                            log.ev(json!({"ev": "PokTsGen", "sig": sid, "msg": mr, "atom": format!("pt{}", atomno), "now": base, "ts": pt.timestamp, "out": pid}));
                            for _ in 0..2 {
                                let tau: i64 = [-1, 0, 5, 1000][rng.gen_range(0..4)];
                                let delay = [0u64, 4, 5, 6, 999, 1000, 1001, 50_000][rng.gen_range(0..8)];
                                blsful::verif_hooks::set_virtual_now_ms(Some(base + delay));
                                let vk = if rng.gen_bool(0.8) { pi } else { rng.gen_range(0..p.pks.len()) };
                                let r = pt.verify(p.pks[vk].1, &mb, if tau < 0 { None } else { Some(tau as u64) });
                                log.ev(json!({"ev": "PokTsVerify", "proof": pid, "pk": p.pks[vk].0, "msg": mr, "now": base + delay, "tau": tau, "res": res_str(&r)}));
                            }
                        }
                        blsful::verif_hooks::set_virtual_now_ms(None);
                    }
                }
            } else {
                // ElGamal: encrypt small scalars, add, decrypt, compare with m*Hm
                let i = rng.gen_range(0..nk);
                let hm = <C as BlsElGamal>::message_generator();
                if egcts.is_empty() || rng.gen_bool(0.5) {
                    let m = [1i64, 2, 3, -1][rng.gen_range(0..4)];
                    atomno += 1;
                    let ct = p.pks[i].1.encrypt_key_el_gamal(&SecretKey::<C>(sc::<C>(m))).unwrap();
                    let id = log.id("egct", &Vec::<u8>::from(&ct));
                    log.ev(json!({"ev": "EGEncrypt", "pk": p.pks[i].0, "m": m, "atom": format!("eb{}", atomno), "out": id}));
                    egcts.push((id, ct));
                } else if egcts.len() >= 2 && rng.gen_bool(0.5) {
                    let (a, b) = (rng.gen_range(0..egcts.len()), rng.gen_range(0..egcts.len()));
                    let s = egcts[a].1 + egcts[b].1;
                    let id = log.id("egct", &Vec::<u8>::from(&s));
                    log.ev(json!({"ev": "EGAdd", "a": egcts[a].0, "b": egcts[b].0, "out": id}));
                    egcts.push((id, s));
                } else {
                    let c = rng.gen_range(0..egcts.len());
                    let d = egcts[c].1.decrypt(&p.sks[i].1);
                    let id = log.id("kpt", d.to_bytes().as_ref());
                    log.ev(json!({"ev": "EGDecrypt", "ct": egcts[c].0, "sk": p.sks[i].0, "out": id}));
                    let m = rng.gen_range(-3i64..7);
                    let pid = log.id("kpt", (hm * sc::<C>(m)).to_bytes().as_ref());
                    log.ev(json!({"ev": "EGPlain", "m": m, "out": pid}));
                }
            }
        }
        let _ = (&dshares, &sigshares);
    }
}
