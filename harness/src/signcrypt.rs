//! Replay of SignCrypt vectors (spec/SignCrypt.tla) on the real library; the evaluator opens
//! every ciphertext independently (documented construction: SHAKE128 mask over enc(sk*U),
//! LEB128 framing, W = r*H(tag, enc(U)||V)).
use crate::conc::*;
use crate::refeval::*;
use crate::signet::*;
use crate::threshold::{deal, ref_lambda};
use blsful::inner_types::Group;
use blsful::*;
use bls12_381_plus::group::Group as RGroup;
use rand::{Rng, SeedableRng};
use rand_chacha::ChaCha8Rng;
use serde_json::{json, Value};
use sha3::digest::{ExtendableOutput, Update, XofReader};

pub fn msg_of_len(conc: &Conc, name: &str, n: usize) -> Vec<u8> {
    let mut h = sha3::Shake128::default();
    h.update(b"blsful-verif-msg");
    h.update(&conc.seed.to_le_bytes());
    h.update(name.as_bytes());
    let mut out = vec![0u8; n];
    h.finalize_xof().read(&mut out);
    out
}

pub fn dst_of<C: BlsSignatureImpl>(s: SignatureSchemes) -> &'static [u8] {
    match s {
        SignatureSchemes::Basic => <C as BlsSignatureBasic>::DST,
        SignatureSchemes::MessageAugmentation => <C as BlsSignatureMessageAugmentation>::DST,
        SignatureSchemes::ProofOfPossession => <C as BlsSignaturePop>::SIG_DST,
    }
}

fn leb_len(n: usize) -> usize {
    leb128(n as u64).len()
}

/// byte positions of a region of the framed payload
fn region(n: usize, total: usize, which: &str) -> std::ops::Range<usize> {
    let p = leb_len(n);
    match which {
        "prefix" => 0..p,
        "message" => p..p + n,
        "padding" => p + n..total,
        x => panic!("unknown region {x}"),
    }
}

/// reference validity + opening, straight from the documented construction
pub fn ref_valid<R: RefG>(rf: &RefCtx, u: &[u8], v: &[u8], w: &[u8], scheme: &str) -> bool {
    let (u, w) = match (R::dec_k(u), R::dec_s(w)) {
        (Some(u), Some(w)) => (u, w),
        _ => return false,
    };
    if bool::from(u.is_identity()) || bool::from(w.is_identity()) {
        return false;
    }
    let (tag, _) = rf.tables.scheme(scheme);
    let mut t = R::enc_k(&u);
    t.extend_from_slice(v);
    let h = R::hash_s(&t, &rf.tables.tag(R::NAME, &tag));
    R::pair(&[(w, R::K::generator())]) == R::pair(&[(h, u)])
}
pub fn shake_mask(key_point_bytes: &[u8], n: usize) -> Vec<u8> {
    let mut h = sha3::Shake128::default();
    h.update(key_point_bytes);
    let mut out = vec![0u8; n];
    h.finalize_xof().read(&mut out);
    out
}
pub fn ref_open_with_point<R: RefG>(ua: &R::K, v: &[u8]) -> Option<Vec<u8>> {
    let mask = shake_mask(&R::enc_k(ua), v.len());
    let plain: Vec<u8> = v.iter().zip(mask.iter()).map(|(a, b)| a ^ b).collect();
    unframe(&plain)
}

pub struct Built<C: BlsSignatureImpl + Clone> {
    pub ct: SignCryptCiphertext<C>,
    pub msg: Vec<u8>,
    /// alternative ciphertexts that belong to the same model state (every bit of a region ...)
    pub variants: Vec<SignCryptCiphertext<C>>,
    pub other: SignCryptCiphertext<C>,
}

pub fn build<C: BlsSignatureImpl + Clone>(lib: &Lib, c: &Value, rng: &mut ChaCha8Rng) -> Built<C> {
    let k = geti(c, "k");
    let scheme0 = gets(c, "scheme0");
    let n = geti(c, "n") as usize;
    let pk = lib.sk::<C>(k).public_key();
    let msg = msg_of_len(lib.conc, "M", n);
    let mut ct = pk.sign_crypt(scheme_of(scheme0), &msg);
    // the recipient uses the genuine ciphertext first (same thread): whatever the library remembers between
    // calls is warm when the altered ciphertext arrives
    let _ = (ct.is_valid(), ct.decrypt(&lib.sk::<C>(k)).is_some());
    // ... and has just refused an altered, longer one
    {
        let mut bad = pk.sign_crypt(scheme_of(scheme0), msg_of_len(lib.conc, "Mw", n + 40));
        bad.w = -bad.w;
        let _ = (bad.is_valid(), bad.decrypt(&lib.sk::<C>(k)).is_some());
    }
    let other_n = if n == 5 { 33 } else { 5 };
    let other = pk.sign_crypt(scheme_of(scheme0), msg_of_len(lib.conc, "M2", other_n));
    let ops = geta(c, "ops");
    let mut variants = vec![];
    for (oi, o) in ops.iter().enumerate() {
        let last = oi + 1 == ops.len();
        match gets(o, "op") {
            "UAddGen" => ct.u += <C as Pairing>::PublicKey::generator(),
            "UNeg" => ct.u = -ct.u,
            "UScale" => ct.u = ct.u.double(),
            "UId" => ct.u = <C as Pairing>::PublicKey::identity(),
            "USwap" => ct.u = other.u,
            "WAddGen" => ct.w += <C as Pairing>::Signature::generator(),
            "WNeg" => ct.w = -ct.w,
            "WId" => ct.w = <C as Pairing>::Signature::identity(),
            "WSwap" => ct.w = other.w,
            "UWId" => {
                ct.u = <C as Pairing>::PublicKey::identity();
                ct.w = <C as Pairing>::Signature::identity();
            }
            "VFlip" => {
                let rg = region(n, ct.v.len(), gets(o, "arg"));
                let rg = rg.start.min(ct.v.len())..rg.end.min(ct.v.len());
                if rg.is_empty() {
                    continue;
                }
                let bits: Vec<usize> = if last && ops.len() == 1 {
                    if rg.len() <= 48 {
                        (rg.start * 8..rg.end * 8).collect()
                    } else {
                        let mut b: Vec<usize> = (rg.start * 8..rg.start * 8 + 8).chain(rg.end * 8 - 8..rg.end * 8).collect();
                        for _ in 0..48 {
                            b.push(rng.gen_range(rg.start * 8..rg.end * 8));
                        }
                        b
                    }
                } else {
                    vec![rng.gen_range(rg.start * 8..rg.end * 8)]
                };
                for b in bits.iter().skip(1) {
                    let mut c2 = ct.clone();
                    c2.v[b / 8] ^= 1 << (b % 8);
                    variants.push(c2);
                }
                ct.v[bits[0] / 8] ^= 1 << (bits[0] % 8);
            }
            "VTrunc" => {
                let l = ct.v.len();
                let nl = match gets(o, "arg") {
                    "1" => l - 1,
                    "half" => l / 2,
                    _ => 0,
                };
                if last && ops.len() == 1 && gets(o, "arg") == "half" && l <= 64 {
                    for x in 1..l {
                        if x != nl {
                            let mut c2 = ct.clone();
                            c2.v.truncate(x);
                            variants.push(c2);
                        }
                    }
                }
                ct.v.truncate(nl);
            }
            "VExtend" => {
                if last && ops.len() == 1 {
                    let mut c2 = ct.clone();
                    c2.v.push(0xff);
                    variants.push(c2);
                    let mut c3 = ct.clone();
                    c3.v.extend_from_slice(&[0u8; 32]);
                    variants.push(c3);
                }
                ct.v.push(0);
            }
            "VSwap" => ct.v = other.v.clone(),
            "Relabel" => ct.scheme = scheme_of(gets(o, "arg")),
            "Reseal" => {
                let r = sc::<C>(rng.gen_range(2..1_000_000));
                ct.u = <C as Pairing>::PublicKey::generator() * r;
                ct.w = <C as BlsSignCrypt>::compute_w(ct.u, &ct.v, dst_of::<C>(ct.scheme)) * r;
            }
            "CraftFrame" => {
                // a valid ciphertext made by a malicious sender: the frame carries a crafted length prefix
                let mut frame: Vec<u8> = match gets(o, "arg") {
                    "over1" => leb128(40),                                   // declares 40, 31 follow
                    "half_max" => leb128(1u64 << 63),
                    "usize_max" => leb128(u64::MAX),
                    "max_minus_used" => leb128(u64::MAX - 9),               // overhead + len wraps to a small number
                    "overlong" => vec![0x80; 12],                            // no terminating byte within 10
                    _ => vec![0xff; 32],
                };
                while frame.len() < 32 {
                    frame.push(0x41);
                }
                let r = sc::<C>(rng.gen_range(2..1_000_000));
                ct.u = <C as Pairing>::PublicKey::generator() * r;
                ct.v = <C as BlsSignCrypt>::compute_v(pk.0 * r, &frame);
                ct.w = <C as BlsSignCrypt>::compute_w(ct.u, &ct.v, dst_of::<C>(ct.scheme)) * r;
            }
            x => panic!("signcrypt: unknown op {x}"),
        }
    }
    Built { ct, msg, variants, other }
}

fn classify(r: subtle::CtOption<Vec<u8>>, msg: &[u8]) -> (&'static str, Option<Vec<u8>>) {
    let o: Option<Vec<u8>> = r.into();
    match o {
        None => ("None", None),
        Some(m) if m == msg => ("Some", Some(m)),
        Some(m) => ("SomeOther", Some(m)),
    }
}
fn class_ok(want: &str, got: &str) -> bool {
    match want {
        "Some" => got == "Some",
        "None" => got == "None",
        "NotOriginal" => got != "Some",
        "Any" => true,
        _ => false,
    }
}

fn set_share_id(b: &mut [u8], id: u8, ok: bool) {
    b[0] = id;
    if !ok {
        for x in b.iter_mut().skip(1) {
            *x = 0;
        }
    }
}

pub fn run<C, R>(v: &Value, conc: &Conc, tables: &Tables) -> Outcome
where
    C: BlsSignatureImpl + PartialEq + Eq + std::fmt::Debug + Clone,
    R: RefG,
{
    let lib = Lib { conc, tables };
    let rf = RefCtx { conc, tables };
    let mut rng = ChaCha8Rng::seed_from_u64(conc.seed ^ 0x51c7);
    let scheme_str = |s: SignatureSchemes| scheme_name(s);
    match gets(v, "act") {
        "Seal" => {
            let k = geti(v, "k");
            let n = geti(v, "n") as usize;
            let msg = msg_of_len(conc, "M", n);
            let sk = lib.sk::<C>(k);
            let ct = sk.public_key().sign_crypt(scheme_of(gets(v, "scheme")), &msg);
            let valid = bool::from(ct.is_valid());
            if valid != getb(&v["expect"], "valid") {
                return Outcome::fail(json!({"valid": valid}), "fresh ciphertext validity differs from the spec");
            }
            if ct.v.len() as i64 != geti(&v["expect"], "len") {
                return Outcome::fail(json!({"len": ct.v.len()}), "payload length differs from max(32, Leb128Len(n)+n)");
            }
            // the independent implementation opens what the library sealed
            let (ub, wb) = (enc_k::<C>(&ct.u), enc_s::<C>(&ct.w));
            if !ref_valid::<R>(&rf, &ub, &ct.v, &wb, scheme_str(ct.scheme)) {
                return Outcome::fail(json!({}), "reference validity check rejects a fresh ciphertext");
            }
            let ua = R::dec_k(&ub).unwrap() * rscalar(k);
            if ref_open_with_point::<R>(&ua, &ct.v).as_deref() != Some(&msg[..]) {
                return Outcome::fail(json!({}), "reference opening of a fresh ciphertext does not give the message");
            }
            let mut o = Outcome::pass(json!({"valid": valid, "len": ct.v.len()}));
            o.extra += 2;
            // the largest length class of the model stands for "long": honest round trips around one and three MiB too
            if n == 65536 {
                for big in [(1usize << 20) - 3, 1 << 20, (1 << 20) + 1, 3 << 20] {
                    let m = msg_of_len(conc, "Mbig", big);
                    let c = sk.public_key().sign_crypt(scheme_of(gets(v, "scheme")), &m);
                    let back: Option<Vec<u8>> = c.decrypt(&sk).into();
                    if !bool::from(c.is_valid()) || back.as_deref() != Some(&m[..]) {
                        return Outcome::fail(json!({"n": big}), format!("a message of {big} bytes does not survive seal / validate / open"));
                    }
                    o.extra += 1;
                }
            }
            o
        }
        "IsValid" => {
            let b = build::<C>(&lib, &v["ct"], &mut rng);
            let want = getb(&v["expect"], "valid");
            let mut o = Outcome::pass(json!({}));
            for c in std::iter::once(&b.ct).chain(b.variants.iter()) {
                let got = bool::from(c.is_valid());
                if got != want {
                    return Outcome::fail(json!({"valid": got, "v_len": c.v.len()}), format!("spec predicts valid={want}, library says {got}"));
                }
                let rv = ref_valid::<R>(&rf, &enc_k::<C>(&c.u), &c.v, &enc_s::<C>(&c.w), scheme_str(c.scheme));
                if rv != got {
                    return Outcome::fail(json!({"lib": got, "ref": rv}), "validity differs from the independent implementation");
                }
                o.extra += 1;
                // the same header through the trait-level entry point
                let tv = bool::from(<C as BlsSignCrypt>::valid(c.u, &c.v, c.w, dst_of::<C>(c.scheme)));
                if tv != want {
                    return Outcome::fail(json!({"path": "trait", "trait": tv, "struct": got}), format!("spec predicts valid={want}, the trait-level BlsSignCrypt::valid says {tv}"));
                }
                o.extra += 1;
            }
            o
        }
        "Decrypt" => {
            let b = build::<C>(&lib, &v["ct"], &mut rng);
            let k2 = geti(v, "k2");
            let sk2 = lib.sk::<C>(k2);
            let want = gets(&v["expect"], "out");
            let mut o = Outcome::pass(json!({}));
            for c in std::iter::once(&b.ct).chain(b.variants.iter()) {
                let r = if gets(v, "via") == "sk" { c.decrypt(&sk2) } else { sk2.sign_decryption_key::<&[u8]>(c).decrypt(c) };
                let (got, bytes) = classify(r, &b.msg);
                if !class_ok(want, got) {
                    return Outcome::fail(json!({"out": got, "v_len": c.v.len()}), format!("spec predicts {want}, library returned {got}"));
                }
                // exact agreement with the independent implementation
                let ub = enc_k::<C>(&c.u);
                let rv = ref_valid::<R>(&rf, &ub, &c.v, &enc_s::<C>(&c.w), scheme_str(c.scheme));
                let rexp = if rv { ref_open_with_point::<R>(&(R::dec_k(&ub).unwrap() * rscalar(k2)), &c.v) } else { None };
                let crafted = geta(&v["ct"], "ops").iter().any(|o| gets(o, "op") == "CraftFrame");
                if rexp != bytes && !crafted {
                    return Outcome::fail(json!({"lib": got}), "decryption result differs from the independent implementation");
                }
                o.extra += 1;
                // the same opening through the trait-level entry point: same bytes
                let (tgot, tbytes) = classify(<C as BlsSignCrypt>::unseal(c.u, &c.v, c.w, &sk2.0, dst_of::<C>(c.scheme)), &b.msg);
                if !class_ok(want, tgot) || (tbytes != bytes && !crafted) {
                    return Outcome::fail(json!({"path": "trait", "trait": tgot, "struct": got}), format!("spec predicts {want}, the trait-level BlsSignCrypt::unseal returned {tgot} (struct-level: {got})"));
                }
                o.extra += 1;
            }
            o
        }
        "ShareVerify" | "DecryptShares" => {
            let b = build::<C>(&lib, &v["ct"], &mut rng);
            let k = geti(&v["ct"], "k");
            let (t, n) = (geti(v, "t") as usize, geti(v, "n") as usize);
            let sh = match deal::<C>(&lib.sk::<C>(k), t, n, conc.seed) {
                Ok(s) => s,
                Err(e) => return Outcome::fail(json!({}), format!("split refused: {e}")),
            };
            if gets(v, "act") == "ShareVerify" {
                let (i, j) = (geti(v, "i") as usize, geti(v, "j") as usize);
                let mut ds = b.ct.create_decryption_share(&sh[i - 1]).expect("decryption share");
                let mut pks = sh[j - 1].public_key().expect("pk share");
                let mut target = if gets(v, "which") == "same" { b.ct.clone() } else { b.other.clone() };
                let idsub = gets(v, "idsub");
                let idk = enc_k::<C>(&<C as Pairing>::PublicKey::identity());
                if idsub.contains("share") || idsub == "all" {
                    let mut bts = Vec::<u8>::from(&ds);
                    bts[1..].copy_from_slice(&idk);
                    ds = SignDecryptionShare::<C>::try_from(bts.as_slice()).expect("share container");
                }
                if idsub.contains("key") || idsub == "all" {
                    let mut bts = Vec::<u8>::from(&pks);
                    bts[1..].copy_from_slice(&idk);
                    pks = PublicKeyShare::<C>::try_from(bts.as_slice()).expect("share container");
                }
                if idsub.contains('w') || idsub == "all" {
                    target.w = <C as Pairing>::Signature::identity();
                }
                // joint linear shift of the share and of w by public amounts: share' = share + a PK_j + b P, w' = w + c H(u, v)
                if let Some(lin) = v.get("lin").and_then(|l| l.as_array()) {
                    let (a, bq, c) = (lin[0].as_i64().unwrap_or(0), lin[1].as_i64().unwrap_or(0), lin[2].as_i64().unwrap_or(0));
                    if (a, bq, c) != (0, 0, 0) {
                        use blsful::vsss_rs::Share;
                        let sp = ds.0.as_group_element::<<C as Pairing>::PublicKey>().expect("share point");
                        let kp = pks.0.as_group_element::<<C as Pairing>::PublicKey>().expect("key share point");
                        let sp2 = sp + kp * sc::<C>(a) + <C as Pairing>::PublicKey::generator() * sc::<C>(bq);
                        let mut bts = Vec::<u8>::from(&ds);
                        bts[1..].copy_from_slice(&enc_k::<C>(&sp2));
                        ds = SignDecryptionShare::<C>::try_from(bts.as_slice()).expect("share container");
                        let h = <C as BlsSignCrypt>::compute_w(target.u, &target.v, dst_of::<C>(target.scheme));
                        target.w += h * sc::<C>(c);
                    }
                }
                let r = ds.verify(&pks, &target);
                let got = if r.is_ok() { "Ok" } else { "Err" };
                let want = gets(&v["expect"], "res");
                if got != want {
                    return Outcome::fail(json!({"res": got, "scheme": gets(&v["ct"], "scheme0"), "i": i, "j": j, "which": gets(v, "which")}),
                        format!("spec predicts {want} for share verification, library returned {got}"));
                }
                let mut o = Outcome::pass(json!({"res": got}));
                // the same check through the trait-level entry point, on the decoded points
                {
                    use blsful::vsss_rs::Share;
                    if let (Ok(sp), Ok(kp)) = (ds.0.as_group_element::<<C as Pairing>::PublicKey>(), pks.0.as_group_element::<<C as Pairing>::PublicKey>()) {
                        let tv = bool::from(<C as BlsSignCrypt>::verify_share(sp, kp, target.u, &target.v, target.w, dst_of::<C>(target.scheme)));
                        if tv != (want == "Ok") {
                            return Outcome::fail(json!({"path": "trait", "trait": tv, "struct": got}), format!("spec predicts {want} for share verification, the trait-level BlsSignCrypt::verify_share says {tv}"));
                        }
                        o.extra += 1;
                    }
                }
                return o;
            }
            let entries = geta(v, "entries");
            let mut shares: Vec<SignDecryptionShare<C>> = vec![];
            for e in entries {
                let ds = b.ct.create_decryption_share(&sh[geti(e, "src") as usize - 1]).expect("decryption share");
                let mut bytes = Vec::<u8>::from(&ds);
                set_share_id(&mut bytes, geti(e, "id") as u8, getb(e, "ok"));
                shares.push(SignDecryptionShare::<C>::try_from(bytes.as_slice()).expect("share container"));
            }
            let want = gets(&v["expect"], "out");
            let (got, bytes): (&str, Option<Vec<u8>>) = if gets(v, "route") == "direct" {
                classify(b.ct.decrypt_with_shares(&shares), &b.msg)
            } else {
                match SignCryptDecryptionKey::<C>::from_shares(&shares) {
                    Err(_) => ("Err", None),
                    Ok(key) => classify(key.decrypt(&b.ct), &b.msg),
                }
            };
            let okc = if want == "Err" { got == "Err" } else { class_ok(want, got) };
            if !okc {
                return Outcome::fail(json!({"out": got}), format!("spec predicts {want}, library returned {got}"));
            }
            let mut o = Outcome::pass(json!({"out": got}));
            // reference: interpolate the same payloads, open with the result
            let ids: Vec<u8> = entries.iter().map(|e| geti(e, "id") as u8).collect();
            let all_ok = entries.iter().all(|e| getb(e, "ok") && geti(e, "id") != 0);
            let distinct = (0..ids.len()).all(|i| (0..i).all(|j| ids[i] != ids[j]));
            if all_ok && distinct && ids.len() >= 2 {
                let mut acc = R::K::identity();
                for (i, s) in shares.iter().enumerate() {
                    let bts = Vec::<u8>::from(s);
                    acc = acc + R::dec_k(&bts[1..]).expect("ref decodes share") * ref_lambda(&ids, i);
                }
                let rexp = ref_open_with_point::<R>(&acc, &b.ct.v);
                if rexp != bytes {
                    return Outcome::fail(json!({}), "threshold decryption differs from the independent implementation");
                }
                o.extra += 1;
            }
            o
        }
        x => Outcome::fail(json!({}), format!("signcrypt: unknown act {x}")),
    }
}
