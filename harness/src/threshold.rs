//! Replay of Threshold vectors (spec/Threshold.tla): real split_with_rng, real partial
//! signatures, the real combiners; the evaluator re-interpolates whatever was handed in.
use crate::conc::*;
use crate::refeval::*;
use crate::signet::*;
use blsful::inner_types::Group;
use blsful::vsss_rs::Share;
use blsful::*;
use bls12_381_plus::ff::Field as RField;
use bls12_381_plus::Scalar as RS;
use rand::SeedableRng;
use rand_chacha::ChaCha20Rng;
use serde_json::{json, Value};

pub fn deal<C: BlsSignatureImpl>(sk: &SecretKey<C>, t: usize, n: usize, seed: u64) -> BlsResult<Vec<SecretKeyShare<C>>> {
    sk.split_with_rng(t, n, ChaCha20Rng::seed_from_u64(seed ^ 0x7d5e_a1))
}

/// Lagrange basis at zero over the reference field
pub fn ref_lambda(ids: &[u8], i: usize) -> RS {
    let xi = RS::from(ids[i] as u64);
    let mut num = RS::ONE;
    let mut den = RS::ONE;
    for (j, x) in ids.iter().enumerate() {
        if j == i {
            continue;
        }
        let xj = RS::from(*x as u64);
        num *= xj;
        den *= xj - xi;
    }
    num * Option::<RS>::from(den.invert()).expect("distinct ids")
}

/// an entry with ok = FALSE stands for every payload no decoder may accept; variant 0: not a compressed point
/// encoding (all zero); variant 1: the honest point plus a point of order 3 (on the curve, outside the subgroup -
/// G1-sized payloads; for G2-sized ones the honest point plus a cofactor-torsion point)
fn corrupt_payload_v(b: &mut [u8], variant: u8) {
    if variant == 1 && b.len() > 1 {
        let honest = b[1..].to_vec();
        let shifted = crate::codecs::points::shifted_order3(&honest).unwrap_or_else(|| crate::codecs::points::shifted(&honest));
        b[1..].copy_from_slice(&shifted);
        return;
    }
    for x in b.iter_mut().skip(1) {
        *x = 0;
    }
}

fn entry_fields(e: &Value) -> (u8, usize, bool, String) {
    (geti(e, "id") as u8, geti(e, "src") as usize, getb(e, "ok"), gets(e, "scheme").to_string())
}

pub fn run<C, R>(v: &Value, conc: &Conc, tables: &Tables) -> Outcome
where
    C: BlsSignatureImpl + PartialEq + Eq + std::fmt::Debug,
    R: RefG,
{
    let lib = Lib { conc, tables };
    let k = geti(v, "k");
    let t = geti(v, "t") as usize;
    let n = geti(v, "n") as usize;
    let sk = lib.sk::<C>(k);
    let want = gets(&v["expect"], "res");
    if gets(v, "act") == "CrossDeal" {
        // both deals through the entry point that draws its own randomness, one after the other on this thread
        use blsful::inner_types::PrimeField;
        let sk2 = lib.sk::<C>(geti(v, "k2"));
        let i = geti(v, "i") as usize;
        let (d1, d2) = match (sk.split(t, n), sk2.split(t, n)) {
            (Ok(a), Ok(b)) => (a, b),
            _ => return Outcome::fail(json!({}), "split refused valid parameters"),
        };
        let val = |s: &SecretKeyShare<C>| -> Option<Sc<C>> { s.0.as_field_element::<Sc<C>>().ok() };
        let (a, b) = match (val(&d1[i - 1]), val(&d2[i - 1])) {
            (Some(a), Some(b)) => (a, b),
            _ => return Outcome::fail(json!({}), "share value does not decode"),
        };
        let leak = a - b + sk2.0 == sk.0;
        let same = a == b;
        let _ = Sc::<C>::NUM_BITS;
        if leak != getb(&v["expect"], "leak") || same != getb(&v["expect"], "sameshare") {
            return Outcome::fail(json!({"leak": leak, "sameshare": same}), "two deals made one after the other are related: f_k(i) - f_k2(i) + k2 = k (the polynomials share their coefficients) or a share repeats");
        }
        let mut o = Outcome::pass(json!({"leak": leak}));
        o.extra += 1;
        return o;
    }
    let dealt = deal::<C>(&sk, t, n, conc.seed);
    match gets(v, "act") {
        "Split" => {
            let got = if dealt.is_ok() { "Ok" } else { "Err" };
            if got != want {
                return Outcome::fail(json!({"res": got}), format!("spec predicts {want} for split({t},{n}), library returned {got}"));
            }
            let mut o = Outcome::pass(json!({"res": got}));
            if let Ok(sh) = dealt {
                if sh.len() != n {
                    return Outcome::fail(json!({"len": sh.len()}), "split returned another number of shares");
                }
                for (i, s) in sh.iter().enumerate() {
                    if s.0.identifier() as usize != i + 1 {
                        return Outcome::fail(json!({}), "share identifiers are not 1..n");
                    }
                }
                // every share lies on one polynomial of degree t-1 through the secret: the first t
                // shares and the last t shares both recombine to the key
                let a = SecretKey::<C>::combine(&sh[..t]);
                let b = SecretKey::<C>::combine(&sh[n - t..]);
                if a.as_ref().ok() != Some(&sk) || b.as_ref().ok() != Some(&sk) {
                    return Outcome::fail(json!({}), "t shares do not recombine to the key");
                }
                o.extra += 2;
            }
            o
        }
        "PartialSign" => {
            let sh = match dealt {
                Ok(s) => s,
                Err(e) => return Outcome::fail(json!({}), format!("split refused: {e}")),
            };
            let i = geti(v, "i") as usize;
            let msg = lib.msg::<C>(&v["msg"]);
            let share = if getb(v, "zero") {
                let mut b = vec![i as u8];
                b.extend_from_slice(&[0u8; 32]);
                SecretKeyShare::<C>::try_from(b.as_slice()).expect("share container")
            } else {
                sh[i - 1].clone()
            };
            let r = share.sign(scheme_of(gets(v, "scheme")), &msg);
            let got = if r.is_ok() { "Ok" } else { "Err" };
            if got != want {
                return Outcome::fail(json!({"res": got}), format!("spec predicts {want}, library returned {got}"));
            }
            let mut o = Outcome::pass(json!({"res": got}));
            // the same action through the trait-level entry point (no such entry point for message augmentation)
            let t = match gets(v, "scheme") {
                "Basic" => Some(<C as BlsSignatureBasic>::partial_sign(&share.0, &msg)),
                "Pop" => Some(<C as BlsSignaturePop>::partial_sign(&share.0, &msg)),
                _ => None,
            };
            if let Some(t) = t {
                let tg = if t.is_ok() { "Ok" } else { "Err" };
                if tg != want {
                    return Outcome::fail(json!({"path": "trait", "trait": tg, "struct": got}), format!("spec predicts {want}, the trait-level partial_sign returned {tg}"));
                }
                if let (Ok(a), Ok(b)) = (&t, &r) {
                    use blsful::vsss_rs::Share;
                    if a.identifier() != b.as_raw_value().identifier() || a.value_vec() != b.as_raw_value().value_vec() {
                        return Outcome::fail(json!({"path": "trait"}), "the trait-level partial_sign and SecretKeyShare::sign produce different shares");
                    }
                }
                o.extra += 1;
            }
            o
        }
        "PartialVerify" => {
            let sh = match dealt {
                Ok(s) => s,
                Err(e) => return Outcome::fail(json!({}), format!("split refused: {e}")),
            };
            let (i, j) = (geti(v, "i") as usize, geti(v, "j") as usize);
            let scheme = scheme_of(gets(v, "scheme"));
            let ms = lib.msg::<C>(&v["msign"]);
            let mv = lib.msg::<C>(&v["mver"]);
            let pks = sh[i - 1].public_key().expect("public key share");
            let sig = sh[j - 1].sign(scheme, &ms).expect("partial signature");
            let r1 = pks.verify(&sig, &mv);
            let r2 = sig.verify(&pks, &mv);
            let got = if r1.is_ok() { "Ok" } else { "Err" };
            if r1.is_ok() != r2.is_ok() {
                return Outcome::fail(json!({}), "PublicKeyShare::verify and SignatureShare::verify disagree");
            }
            if got != want {
                return Outcome::fail(json!({"res": got}), format!("spec predicts {want} for partial verify (i={i}, j={j}), library returned {got}"));
            }
            let mut o = Outcome::pass(json!({"res": got}));
            o.extra += 1;
            let t = match gets(v, "scheme") {
                "Basic" => Some(<C as BlsSignatureBasic>::partial_verify(pks.0, *sig.as_raw_value(), &mv)),
                "Pop" => Some(<C as BlsSignaturePop>::partial_verify(pks.0, *sig.as_raw_value(), &mv)),
                _ => None,
            };
            if let Some(t) = t {
                let tg = if t.is_ok() { "Ok" } else { "Err" };
                if tg != want {
                    return Outcome::fail(json!({"path": "trait", "trait": tg, "struct": got}), format!("spec predicts {want} for partial verify (i={i}, j={j}), the trait-level partial_verify returned {tg}"));
                }
                o.extra += 1;
            }
            o
        }
        "Combine" => {
            let sh = match dealt {
                Ok(s) => s,
                Err(e) => return Outcome::fail(json!({}), format!("split refused: {e}")),
            };
            // undecodable payloads in two classes (see corrupt_payload_v); the blank container (identifier 0) is all zero
            let has_bad = geta(v, "entries").iter().any(|e| !getb(e, "ok") && geti(e, "id") != 0);
            if has_bad && v.get("payload_variant").is_none() {
                let mut total = Outcome::pass(json!({}));
                for pv in [0u8, 1] {
                    let mut v2 = v.clone();
                    v2["payload_variant"] = json!(pv);
                    let o = run::<C, R>(&v2, conc, tables);
                    if !o.ok {
                        return o;
                    }
                    total.extra += o.extra + 1;
                    total.obs = o.obs;
                }
                return total;
            }
            let pv = v.get("payload_variant").and_then(|x| x.as_u64()).unwrap_or(0) as u8;
            let kind = gets(v, "kind");
            let msg = lib.msg::<C>(&v["msg"]);
            let entries: Vec<(u8, usize, bool, String)> = geta(v, "entries").iter().map(entry_fields).collect();
            let want_whole = getb(&v["expect"], "whole");
            let ids: Vec<u8> = entries.iter().map(|e| e.0).collect();
            match kind {
                "sk" => {
                    let shares: Vec<SecretKeyShare<C>> = entries
                        .iter()
                        .map(|(id, src, _ok, _)| {
                            let mut s = sh[*src - 1].clone();
                            *s.0.identifier_mut() = *id;
                            s
                        })
                        .collect();
                    let r = SecretKey::<C>::combine(&shares);
                    let got = if r.is_ok() { "Ok" } else { "Err" };
                    if got != want {
                        return Outcome::fail(json!({"res": got}), format!("spec predicts {want}, SecretKey::combine returned {got}"));
                    }
                    let mut o = Outcome::pass(json!({"res": got}));
                    if let Ok(c) = r {
                        if (c == sk) != want_whole {
                            return Outcome::fail(json!({"equals_key": c == sk}), "recombined key vs whole key: not as the spec predicts");
                        }
                        // the evaluator interpolates the same payloads
                        let mut acc = RS::ZERO;
                        for (i, s) in shares.iter().enumerate() {
                            let mut le = [0u8; 32];
                            le.copy_from_slice(&s.0.value_vec());
                            let y = Option::<RS>::from(RS::from_le_bytes(&le)).expect("share scalar");
                            acc += y * ref_lambda(&ids, i);
                        }
                        if acc.to_be_bytes() != c.to_be_bytes() {
                            return Outcome::fail(json!({}), "SecretKey::combine differs from the reference interpolation");
                        }
                        o.extra += 1;
                    }
                    o
                }
                "pk" => {
                    let shares: Vec<PublicKeyShare<C>> = entries
                        .iter()
                        .map(|(id, src, ok, _)| {
                            let mut p = sh[*src - 1].public_key().expect("pk share");
                            let mut b = Vec::<u8>::from(&p);
                            b[0] = *id;
                            if !*ok {
                                corrupt_payload_v(&mut b, if *id == 0 { 0 } else { pv });
                            }
                            p = PublicKeyShare::<C>::try_from(b.as_slice()).expect("share container");
                            p
                        })
                        .collect();
                    let r = PublicKey::<C>::from_shares(&shares);
                    let got = if r.is_ok() { "Ok" } else { "Err" };
                    if got != want {
                        return Outcome::fail(json!({"res": got}), format!("spec predicts {want}, PublicKey::from_shares returned {got}"));
                    }
                    let mut o = Outcome::pass(json!({"res": got}));
                    {
                        let inner: Vec<<C as Pairing>::PublicKeyShare> = shares.iter().map(|s| s.0).collect();
                        let t = <C as BlsSignatureCore>::core_combine_public_key_shares(&inner);
                        let tg = if t.is_ok() { "Ok" } else { "Err" };
                        if tg != want || t.as_ref().ok().map(|p| enc_k::<C>(p)) != r.as_ref().ok().map(|p| enc_k::<C>(&p.0)) {
                            return Outcome::fail(json!({"path": "trait", "trait": tg, "struct": got}), format!("spec predicts {want}, the trait-level core_combine_public_key_shares returned {tg} (or another point)"));
                        }
                        o.extra += 1;
                    }
                    if let Ok(c) = r {
                        if (c == sk.public_key()) != want_whole {
                            return Outcome::fail(json!({}), "recombined public key vs whole public key: not as the spec predicts");
                        }
                        let mut acc = R::K::identity();
                        for (i, s) in shares.iter().enumerate() {
                            let b = Vec::<u8>::from(s);
                            let y = R::dec_k(&b[1..]).expect("ref decodes pk share");
                            acc = acc + y * ref_lambda(&ids, i);
                        }
                        if R::enc_k(&acc) != enc_k::<C>(&c.0) {
                            return Outcome::fail(json!({}), "PublicKey::from_shares differs from the reference interpolation");
                        }
                        o.extra += 1;
                    }
                    o
                }
                "sig" => {
                    let mut shares: Vec<SignatureShare<C>> = vec![];
                    for (id, src, ok, sch) in entries.iter() {
                        let s = if sch == "Aug" {
                            // the list's own scheme, relabelled (partial signing refuses message augmentation)
                            let base = entries.iter().map(|e| e.3.as_str()).find(|x| *x != "Aug").unwrap_or("Basic");
                            SignatureShare::<C>::MessageAugmentation(*sh[*src - 1].sign(scheme_of(base), &msg).expect("partial sign").as_raw_value())
                        } else {
                            sh[*src - 1].sign(scheme_of(sch), &msg).expect("partial sign")
                        };
                        let mut b = Vec::<u8>::from(&s);
                        b[1] = *id;
                        if !*ok {
                            corrupt_payload_v(&mut b[1..], if *id == 0 { 0 } else { pv });
                        }
                        shares.push(SignatureShare::<C>::try_from(b.as_slice()).expect("share container"));
                    }
                    let r = Signature::<C>::from_shares(&shares);
                    let got = if r.is_ok() { "Ok" } else { "Err" };
                    if got != want {
                        return Outcome::fail(json!({"res": got}), format!("spec predicts {want}, Signature::from_shares returned {got}"));
                    }
                    let mut o = Outcome::pass(json!({"res": got}));
                    // the trait-level combiner sees payloads only; it refines the action when the labels are uniform
                    if entries.iter().all(|e| e.3 == entries[0].3) {
                        let inner: Vec<<C as Pairing>::SignatureShare> = shares.iter().map(|s| *s.as_raw_value()).collect();
                        let t = <C as BlsSignatureCore>::core_combine_signature_shares(&inner);
                        let tg = if t.is_ok() { "Ok" } else { "Err" };
                        if tg != want || t.as_ref().ok().map(|p| enc_s::<C>(p)) != r.as_ref().ok().map(|p| enc_s::<C>(p.as_raw_value())) {
                            return Outcome::fail(json!({"path": "trait", "trait": tg, "struct": got}), format!("spec predicts {want}, the trait-level core_combine_signature_shares returned {tg} (or another point)"));
                        }
                        o.extra += 1;
                    }
                    if let Ok(c) = r {
                        let whole = sk.sign(scheme_of(&entries[0].3), &msg).expect("whole-key signature");
                        let same = Vec::<u8>::from(&c) == Vec::<u8>::from(&whole);
                        if same != want_whole {
                            return Outcome::fail(json!({"equals_whole": same}), "recombined signature vs whole-key signature bytes: not as the spec predicts");
                        }
                        let mut acc = R::S::identity();
                        for (i, s) in shares.iter().enumerate() {
                            let b = Vec::<u8>::from(s);
                            let y = R::dec_s(&b[2..]).expect("ref decodes sig share");
                            acc = acc + y * ref_lambda(&ids, i);
                        }
                        if R::enc_s(&acc) != enc_s::<C>(c.as_raw_value()) {
                            return Outcome::fail(json!({}), "Signature::from_shares differs from the reference interpolation");
                        }
                        o.extra += 1;
                    }
                    o
                }
                x => Outcome::fail(json!({}), format!("unknown kind {x}")),
            }
        }
        x => Outcome::fail(json!({}), format!("threshold: unknown act {x}")),
    }
}

#[allow(dead_code)]
fn _unused<C: BlsSignatureImpl>() -> <C as Pairing>::PublicKey {
    <C as Pairing>::PublicKey::identity()
}
