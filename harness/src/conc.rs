//! Concretisation (gamma of DESIGN.md 2.2): model integers -> scalars, message recipes -> bytes.
use serde_json::Value;
use sha3::digest::{ExtendableOutput, Update, XofReader};

/// Run-wide concretisation parameters.
#[derive(Clone, Debug)]
pub struct Conc {
    /// common byte length of every message atom (>= 1): a prefix code, so the
    /// free-monoid map  chunk sequence -> bytes  is injective
    pub atom_len: usize,
    pub seed: u64,
    /// which byte alphabet the atoms are drawn from.  Messages and identifiers are opaque byte strings; the
    /// hostile alphabets make distinct atoms collide under any text-like treatment of them:
    /// 0 = arbitrary bytes; 1 = bytes that are never valid UTF-8 (lone continuation bytes), so a lossy text
    /// conversion maps all atoms of one length to the same string; 2 = ASCII text in which atoms differ only
    /// in letter case, kind of blank and kind of line end, so case folding / trimming / newline normalisation
    /// collapses them (needs atom_len >= 4, otherwise alphabet 0 is used)
    pub alphabet: u8,
}

const ATOM_NAMES: &[&str] = &[
    "a", "b", "c", "d", "e", "f", "g", "i", "j", "id1", "id2", "m1", "m2", "m3", "m4", "x",
];

impl Conc {
    /// bytes of the atom `name`: SHAKE128(seed || name) stream of atom_len bytes whose first
    /// byte carries the index of the name in its low nibble (distinct names => distinct bytes
    /// for every atom_len >= 1)
    pub fn atom(&self, name: &str) -> Vec<u8> {
        let mut h = sha3::Shake128::default();
        h.update(b"blsful-verif-atom");
        h.update(&self.seed.to_le_bytes());
        h.update(name.as_bytes());
        let mut out = vec![0u8; self.atom_len.max(1)];
        h.finalize_xof().read(&mut out);
        if let Some(ix) = ATOM_NAMES.iter().position(|n| *n == name) {
            match (self.alphabet, self.atom_len >= 4) {
                (1, _) => {
                    for b in out.iter_mut() {
                        *b = 0x80 | (*b & 0x3f);
                    }
                    out[0] = 0x80 | (out[0] & 0x30) | (ix as u8);
                    return out;
                }
                (2, true) => {
                    for b in out.iter_mut() {
                        *b = b'x';
                    }
                    out[0] = if ix & 1 == 0 { b'M' } else { b'm' };
                    out[1] = if ix & 2 == 0 { b's' } else { b'S' };
                    out[2] = if ix & 4 == 0 { b' ' } else { b'\t' };
                    out[3] = if ix & 8 == 0 { b'\n' } else { b'\r' };
                    return out;
                }
                _ => {}
            }
            out[0] = (out[0] & 0xF0) | (ix as u8);
        } else {
            // names outside the table (trace drivers use "m<number>"): hash only, length >= 8 there
            assert!(self.atom_len >= 8, "unknown atom {name} needs atom_len >= 8");
        }
        out
    }
}

pub fn geti(v: &Value, k: &str) -> i64 {
    v.get(k).and_then(|x| x.as_i64()).unwrap_or_else(|| panic!("missing int field {k} in {v}"))
}
pub fn gets<'a>(v: &'a Value, k: &str) -> &'a str {
    v.get(k).and_then(|x| x.as_str()).unwrap_or_else(|| panic!("missing str field {k} in {v}"))
}
pub fn getb(v: &Value, k: &str) -> bool {
    v.get(k).and_then(|x| x.as_bool()).unwrap_or_else(|| panic!("missing bool field {k} in {v}"))
}
pub fn geta<'a>(v: &'a Value, k: &str) -> &'a Vec<Value> {
    v.get(k).and_then(|x| x.as_array()).unwrap_or_else(|| panic!("missing array field {k} in {v}"))
}

/// the input a driver is feeding to the library right now: a watchdog reports it if the call never returns
pub mod watch {
    use std::sync::Mutex;
    use std::time::Instant;
    pub static SLOT: Mutex<Option<(Instant, String)>> = Mutex::new(None);
    pub fn enter(desc: String) {
        if let Ok(mut s) = SLOT.lock() {
            *s = Some((Instant::now(), desc));
        }
    }
    pub fn leave() {
        if let Ok(mut s) = SLOT.lock() {
            *s = None;
        }
    }
    /// Some(description) when the call in flight is older than `limit` seconds
    pub fn stuck(limit: u64) -> Option<String> {
        SLOT.lock().ok().and_then(|s| s.as_ref().and_then(|(t, d)| if t.elapsed().as_secs() > limit { Some(d.clone()) } else { None }))
    }
}
