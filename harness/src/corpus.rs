//! C18(a): the golden corpus.  `corpus` (run ONCE against the pinned release, see golden/README)
//! records, for every data type x group x variant x value class, the three encodings, and for
//! every protocol the artefacts together with the result each consuming call gave.
//! `corpus-check` replays the corpus into the current tree and logs one event per entry (class-
//! deduplicated), which TLC validates against spec/Trace_Interop.tla.
use crate::codecs::*;
use crate::conc::*;
use crate::refeval::*;
use crate::signet::*;
use blsful::inner_types::{Field, Group, GroupEncoding};
use blsful::*;
use serde::de::DeserializeOwned;
use serde::Serialize;
use serde_json::{json, Value};
use std::collections::BTreeMap;

fn variants_of(t: &str) -> Vec<&'static str> {
    match t {
        "SecretKeyEnum" | "Bls12381" => vec!["G1", "G2"],
        "Signature" | "AggregateSignature" | "MultiSignature" | "ProofCommitment" | "ProofOfKnowledge" | "ProofOfKnowledgeTimestamp" | "SignatureShare"
        | "SignCryptCiphertext" | "TimeCryptCiphertext" | "SignatureSchemes" => vec!["Basic", "Aug", "Pop"],
        _ => vec!["-"],
    }
}

fn hx<T: Serialize>(x: &T) -> String {
    hex::encode(serde_bare::to_vec(x).expect("bare"))
}
fn un<T: DeserializeOwned>(s: &str) -> Result<T, String> {
    serde_bare::from_slice(&hex::decode(s).map_err(|e| e.to_string())?).map_err(|e| e.to_string())
}

pub fn generate<C: Impl>(group: &str, tables: &Tables, out: &mut Vec<Value>) {
    let conc = Conc { atom_len: 5, seed: 18, alphabet: 0 };
    let lib = Lib { conc: &conc, tables };
    // ---- every data type
    macro_rules! one {
        ($name:expr, $t:ty, $make:expr) => {
            for variant in variants_of($name) {
                for vclass in ["generic", "identity", "scalar_rm1", "empty", "large", "id255"] {
                    let mk = Mk { lib: &lib, variant, vclass, seed: 18 };
                    let f: fn(&Mk) -> $t = $make;
                    let val = match std::panic::catch_unwind(std::panic::AssertUnwindSafe(|| f(&mk))) {
                        Ok(v) => v,
                        Err(_) => continue,
                    };
                    // the byte form of the curve-tagged wrapper is excluded: the pinned release wrote a tag its
                    // own parser refuses (D8, repaired)
                    let bytes: Value = if <$t as ByteConv>::HAS_BYTES && $name != "SecretKeyEnum" { json!(hex::encode(val.enc())) } else { Value::Null };
                    out.push(json!({"kind": "type", "type": $name, "group": group, "variant": variant, "vclass": vclass,
                                    "bytes": bytes, "bare": hx(&val), "json": serde_json::to_string(&val).unwrap()}));
                }
            }
        };
    }
    subjects!(one, C);
    // ---- behaviours
    let sk = SecretKey::<C>::from_hash(b"golden corpus key");
    let sk2 = SecretKey::<C>::from_hash(b"golden corpus key 2");
    let pk = sk.public_key();
    let msg = b"golden message".to_vec();
    for (sname, scheme) in [("Basic", SignatureSchemes::Basic), ("Aug", SignatureSchemes::MessageAugmentation), ("Pop", SignatureSchemes::ProofOfPossession)] {
        let sig = sk.sign(scheme, &msg).unwrap();
        out.push(json!({"kind": "sig", "group": group, "scheme": sname, "sk": hex::encode(sk.to_be_bytes()), "pk": hx(&pk), "sig": hx(&sig), "msg": hex::encode(&msg),
                        "verdict": sig.verify(&pk, &msg).is_ok(), "verdict_other_key": sig.verify(&sk2.public_key(), &msg).is_ok()}));
        for n in [0usize, 5, 40, 200] {
            let m = crate::signcrypt::msg_of_len(&conc, "golden", n);
            let ct = pk.sign_crypt(scheme, &m);
            let d: Option<Vec<u8>> = ct.decrypt(&sk).into();
            out.push(json!({"kind": "signcrypt", "group": group, "scheme": sname, "sk": hex::encode(sk.to_be_bytes()), "ct": hx(&ct), "ct_json": serde_json::to_string(&ct).unwrap(),
                            "plain": hex::encode(&m), "valid": bool::from(ct.is_valid()), "opens": d.as_deref() == Some(&m[..])}));
            if sname != "Aug" {
                // (time-lock under MessageAugmentation never opened in the pinned release: D7, repaired)
                let tc = pk.encrypt_time_lock(scheme, &m, b"golden id").unwrap();
                let ids = sk.sign(scheme, b"golden id").unwrap();
                let d: Option<Vec<u8>> = tc.decrypt(&ids).into();
                out.push(json!({"kind": "timelock", "group": group, "scheme": sname, "ct": hx(&tc), "ct_json": serde_json::to_string(&tc).unwrap(), "sig": hx(&ids),
                                "plain": hex::encode(&m), "opens": d.as_deref() == Some(&m[..])}));
            }
        }
        if sname != "Aug" {
            // (proofs of knowledge over MessageAugmentation signatures never verify: D6)
            let (c, x) = ProofCommitment::<C>::generate(&msg, sig).unwrap();
            let y = ProofCommitmentChallenge::<C>::from_hash(b"golden challenge");
            let p = c.finalize(x, y.clone(), sig).unwrap();
            out.push(json!({"kind": "pok", "group": group, "scheme": sname, "pk": hx(&pk), "msg": hex::encode(&msg), "y": hx(&y), "proof": hx(&p), "verdict": p.verify(pk, &msg, y).is_ok()}));
            let pt = ProofOfKnowledgeTimestamp::<C>::generate(&msg, sig).unwrap();
            out.push(json!({"kind": "pokts", "group": group, "scheme": sname, "pk": hx(&pk), "msg": hex::encode(&msg), "proof": hx(&pt), "verdict": pt.verify(pk, &msg, None).is_ok()}));
            let sh = sk.split(2, 3).unwrap();
            let parts: Vec<SignatureShare<C>> = sh.iter().map(|s| s.sign(scheme, &msg).unwrap()).collect();
            let comb = Signature::<C>::from_shares(&parts[..2]).unwrap();
            out.push(json!({"kind": "shares", "group": group, "scheme": sname, "sk": hex::encode(sk.to_be_bytes()),
                            "skshares": sh.iter().map(|s| hx(s)).collect::<Vec<_>>(), "sigshares": parts.iter().map(|s| hx(s)).collect::<Vec<_>>(),
                            "combined_sig": hx(&comb), "equals_whole": hx(&comb) == hx(&sig)}));
        }
    }
    let pop = sk.proof_of_possession().unwrap();
    out.push(json!({"kind": "pop", "group": group, "pk": hx(&pk), "pop": hx(&pop), "verdict": pop.verify(pk).is_ok()}));
    let eg = pk.encrypt_key_el_gamal_with_proof(&sk2).unwrap();
    let dec = eg.verify_and_decrypt(&sk).ok().map(|p| hex::encode(p.to_bytes().as_ref()));
    out.push(json!({"kind": "elgamal", "group": group, "pk": hx(&pk), "sk": hex::encode(sk.to_be_bytes()), "proof": hx(&eg), "verdict": eg.verify(pk).is_ok(), "decrypts_to": dec,
                    "expected": hex::encode((<C as BlsElGamal>::message_generator() * sk2.0).to_bytes().as_ref())}));
    let sigs: Vec<Signature<C>> = [&sk, &sk2].iter().map(|k| k.sign(SignatureSchemes::ProofOfPossession, &msg).unwrap()).collect();
    let agg = AggregateSignature::<C>::from_signatures(&sigs).unwrap();
    let ms = MultiSignature::<C>::from_signatures(&sigs).unwrap();
    out.push(json!({"kind": "aggregate", "group": group, "pks": [hx(&pk), hx(&sk2.public_key())], "msg": hex::encode(&msg), "agg": hx(&agg), "multi": hx(&ms),
                    "agg_verdict": agg.verify(&[(pk, msg.clone()), (sk2.public_key(), msg.clone())]).is_ok(),
                    "multi_verdict": ms.verify(MultiPublicKey::<C>::from_public_keys(&[pk, sk2.public_key()]), &msg).is_ok()}));
    out.push(json!({"kind": "keygen", "group": group, "seed": hex::encode(b"golden seed"), "sk": hex::encode(SecretKey::<C>::from_hash(b"golden seed").to_be_bytes())}));
    for (name, val) in det_ops::<C>(group) {
        out.push(json!({"kind": "det", "group": group, "name": name, "out": val}));
    }
}

/// deterministic operations (C19: byte-identical on both backends; C18: unchanged since the pinned release)
pub fn det_ops<C: Impl>(group: &str) -> Vec<(String, String)> {
    use rand::SeedableRng;
    let mut out: Vec<(String, String)> = vec![];
    let mut put = |name: String, bytes: &[u8]| out.push((name, hex::encode(bytes)));
    for l in [0usize, 1, 31, 32, 33, 1024] {
        let seed: Vec<u8> = (0..l).map(|i| (i * 7 + 3) as u8).collect();
        put(format!("keygen/from_hash/{l}"), &SecretKey::<C>::from_hash(&seed).to_be_bytes());
        put(format!("challenge/from_hash/{l}"), &ProofCommitmentChallenge::<C>::from_hash(&seed).to_be_bytes());
    }
    let r1 = SecretKey::<C>::random(rand_chacha::ChaCha20Rng::seed_from_u64(5));
    let r2 = BlsSignature::<C>::random_secret_key(rand_chacha::ChaCha20Rng::seed_from_u64(5));
    let r3 = ProofCommitmentChallenge::<C>::random(rand_chacha::ChaCha20Rng::seed_from_u64(5));
    put("keygen/random_seeded".into(), &r1.to_be_bytes());
    put("keygen/facade_random_seeded".into(), &r2.to_be_bytes());
    put("challenge/random_seeded".into(), &r3.to_be_bytes());
    put("elgamal/message_generator".into(), <C as BlsElGamal>::message_generator().to_bytes().as_ref());
    let u = <C as Pairing>::Signature::generator() * sc::<C>(7);
    put("pok/compute_y".into(), &SecretKey::<C>(<C as BlsSignatureProof>::compute_y(u, 1_700_000_000_123)).to_be_bytes());
    let big = vec![0xabu8; 70000];
    for (mn, m) in [("empty", &b""[..]), ("abc", &b"abc"[..]), ("big", &big[..])] {
        for (dn, dst) in [("nul", <C as BlsSignatureBasic>::DST), ("aug", <C as BlsSignatureMessageAugmentation>::DST), ("pop", <C as BlsSignaturePop>::SIG_DST), ("popproof", <C as BlsSignaturePop>::POP_DST)] {
            put(format!("hash_to_point/{mn}/{dn}"), <C as HashToPoint>::hash_to_point(m, dst).to_bytes().as_ref());
        }
        put(format!("hash_to_scalar/{mn}"), &SecretKey::<C>(<C as HashToScalar>::hash_to_scalar(m, b"some salt")).to_be_bytes());
    }
    let gt = <C as Pairing>::pairing(&[(<C as Pairing>::Signature::generator() * sc::<C>(2), <C as Pairing>::PublicKey::generator() * sc::<C>(3))]);
    put("pairing/gt_bytes".into(), gt.to_bytes().as_ref());
    // the empty product and products over identity operands (not in the corpus of the pinned release: compared across backends)
    let e0 = <C as Pairing>::pairing(&[]);
    put("pairing/empty".into(), e0.to_bytes().as_ref());
    put("pairing/empty_is_identity".into(), if bool::from(e0.is_identity()) { b"yes" } else { b"no" });
    let e1 = <C as Pairing>::pairing(&[(<C as Pairing>::Signature::identity(), <C as Pairing>::PublicKey::generator()), (<C as Pairing>::Signature::generator(), <C as Pairing>::PublicKey::identity())]);
    put("pairing/identity_operands".into(), e1.to_bytes().as_ref());
    put("pairing/sum_with_empty".into(), (gt + e0).to_bytes().as_ref());
    for (wn, w) in [("zero", [0u8; 64]), ("ff", [0xffu8; 64]), ("low_ge_r", { let mut a = [0u8; 64]; for x in a.iter_mut().take(32) { *x = 0xff; } a }), ("pattern", { let mut a = [0u8; 64]; for (i, x) in a.iter_mut().enumerate() { *x = (i * 37 + 11) as u8; } a })] {
        put(format!("scalar/from_bytes_wide/{wn}"), &SecretKey::<C>(<C as BlsElGamal>::scalar_from_bytes_wide(&w)).to_be_bytes());
    }
    // recombination of a fixed share set (f(x) = 11 + 5x): ids 1, 3 and 7
    let sk = SecretKey::<C>(sc::<C>(11));
    let mk_share = |i: u8| {
        let mut b = vec![i];
        b.extend_from_slice(&SecretKey::<C>(sc::<C>(11 + 5 * i as i64)).to_le_bytes());
        SecretKeyShare::<C>::try_from(b.as_slice()).unwrap()
    };
    let shs: Vec<SecretKeyShare<C>> = [1u8, 3, 7].iter().map(|i| mk_share(*i)).collect();
    put("shares/combine_key".into(), &SecretKey::<C>::combine(&shs).map(|k| k.to_be_bytes()).unwrap_or([0u8; 32]));
    let pks: Vec<PublicKeyShare<C>> = shs.iter().map(|s| s.public_key().unwrap()).collect();
    put("shares/combine_pk".into(), &PublicKey::<C>::from_shares(&pks).map(|k| Vec::<u8>::from(&k)).unwrap_or_default());
    let sgs: Vec<SignatureShare<C>> = shs.iter().map(|s| s.sign(SignatureSchemes::Basic, b"m").unwrap()).collect();
    put("shares/combine_sig".into(), &Signature::<C>::from_shares(&sgs).map(|k| Vec::<u8>::from(&k)).unwrap_or_default());
    put("shares/whole_sig".into(), &Vec::<u8>::from(&sk.sign(SignatureSchemes::Basic, b"m").unwrap()));
    // aggregate of 12 signers (more pairing terms than a Miller-loop batch)
    for n in [2usize, 8, 9, 12, 17] {
        let keys: Vec<SecretKey<C>> = (0..n).map(|i| SecretKey::<C>::from_hash(format!("agg-{i}"))).collect();
        let sigs: Vec<Signature<C>> = keys.iter().enumerate().map(|(i, k)| k.sign(SignatureSchemes::ProofOfPossession, format!("msg-{i}").as_bytes()).unwrap()).collect();
        let agg = AggregateSignature::<C>::from_signatures(&sigs).unwrap();
        let pairs: Vec<(PublicKey<C>, Vec<u8>)> = keys.iter().enumerate().map(|(i, k)| (k.public_key(), format!("msg-{i}").into_bytes())).collect();
        put(format!("aggregate/{n}/bytes"), &Vec::<u8>::from(&agg));
        put(format!("aggregate/{n}/verdict"), if agg.verify(&pairs).is_ok() { b"ok" } else { b"err" });
        let mut bad = pairs.clone();
        bad[n - 1].1 = b"other".to_vec();
        put(format!("aggregate/{n}/verdict_altered_last"), if agg.verify(&bad).is_ok() { b"ok" } else { b"err" });
    }
    let _ = group;
    out
}

/// replay one golden entry into the current tree; returns (class key, ok, detail)
fn check_entry<C: Impl>(e: &Value, tables: &Tables) -> Vec<(String, bool, String)> {
    let conc = Conc { atom_len: 5, seed: 18, alphabet: 0 };
    let lib = Lib { conc: &conc, tables };
    let mut res: Vec<(String, bool, String)> = vec![];
    let kind = gets(e, "kind");
    let b = |x: bool| x;
    match kind {
        "type" => {
            let tname = gets(e, "type");
            macro_rules! one {
                ($name:expr, $t:ty, $make:expr) => {
                    if tname == $name {
                        // each recorded form still decodes, all forms decode to the same value, and re-encoding is byte-identical
                        let from_bare: Result<$t, String> = un(gets(e, "bare"));
                        let from_json: Result<$t, String> = serde_json::from_str(gets(e, "json")).map_err(|x| x.to_string());
                        match (&from_bare, &from_json) {
                            (Ok(a), Ok(j)) => {
                                res.push((format!("type/{}/bare", $name), hx(a) == gets(e, "bare"), "re-encoding of the decoded value".into()));
                                res.push((format!("type/{}/json", $name), a == j && serde_json::to_string(j).unwrap() == gets(e, "json"), "json form".into()));
                                if let Some(hb) = e["bytes"].as_str() {
                                    match <$t as ByteConv>::dec(&hex::decode(hb).unwrap()) {
                                        Ok(v) => res.push((format!("type/{}/bytes", $name), &v == a && hex::encode(v.enc()) == hb, "byte form".into())),
                                        Err(x) => res.push((format!("type/{}/bytes", $name), false, x)),
                                    }
                                }
                            }
                            (a, j) => res.push((format!("type/{}/decode", $name), false, format!("bare: {:?} json: {:?}", a.as_ref().err(), j.as_ref().err()))),
                        }
                    }
                };
            }
            subjects!(one, C);
        }
        "sig" => {
            let (pk, sig): (Result<PublicKey<C>, _>, Result<Signature<C>, _>) = (un(gets(e, "pk")), un(gets(e, "sig")));
            match (pk, sig) {
                (Ok(pk), Ok(sig)) => {
                    let msg = hex::decode(gets(e, "msg")).unwrap();
                    res.push(("sig/verify".into(), sig.verify(&pk, &msg).is_ok() == getb(e, "verdict"), "".into()));
                    // the current tree produces the same signature for the same key, scheme and message
                    let mut kb = [0u8; 32];
                    kb.copy_from_slice(&hex::decode(gets(e, "sk")).unwrap());
                    let sk = Option::<SecretKey<C>>::from(SecretKey::<C>::from_be_bytes(&kb)).unwrap();
                    let again = sk.sign(scheme_of(gets(e, "scheme")), &msg).unwrap();
                    res.push(("sig/resign".into(), hx(&again) == gets(e, "sig") && hx(&sk.public_key()) == gets(e, "pk"), "".into()));
                }
                _ => res.push(("sig/decode".into(), false, "".into())),
            }
        }
        "signcrypt" => match un::<SignCryptCiphertext<C>>(gets(e, "ct")) {
            Ok(ct) => {
                let mut kb = [0u8; 32];
                kb.copy_from_slice(&hex::decode(gets(e, "sk")).unwrap());
                let sk = Option::<SecretKey<C>>::from(SecretKey::<C>::from_be_bytes(&kb)).unwrap();
                let plain = hex::decode(gets(e, "plain")).unwrap();
                let d: Option<Vec<u8>> = ct.decrypt(&sk).into();
                res.push(("signcrypt/open".into(), b(bool::from(ct.is_valid()) == getb(e, "valid")) && (d.as_deref() == Some(&plain[..])) == getb(e, "opens"), "".into()));
                let cj: Result<SignCryptCiphertext<C>, _> = serde_json::from_str(gets(e, "ct_json"));
                res.push(("signcrypt/json".into(), cj.map(|c| c == ct).unwrap_or(false), "".into()));
            }
            Err(x) => res.push(("signcrypt/decode".into(), false, x)),
        },
        "timelock" => match (un::<TimeCryptCiphertext<C>>(gets(e, "ct")), un::<Signature<C>>(gets(e, "sig"))) {
            (Ok(ct), Ok(sig)) => {
                let plain = hex::decode(gets(e, "plain")).unwrap();
                let d: Option<Vec<u8>> = ct.decrypt(&sig).into();
                res.push(("timelock/open".into(), (d.as_deref() == Some(&plain[..])) == getb(e, "opens"), "".into()));
                let cj: Result<TimeCryptCiphertext<C>, _> = serde_json::from_str(gets(e, "ct_json"));
                res.push(("timelock/json".into(), cj.map(|c| c == ct).unwrap_or(false), "".into()));
            }
            _ => res.push(("timelock/decode".into(), false, "".into())),
        },
        "pok" => match (un::<ProofOfKnowledge<C>>(gets(e, "proof")), un::<PublicKey<C>>(gets(e, "pk")), un::<ProofCommitmentChallenge<C>>(gets(e, "y"))) {
            (Ok(p), Ok(pk), Ok(y)) => res.push(("pok/verify".into(), p.verify(pk, hex::decode(gets(e, "msg")).unwrap(), y).is_ok() == getb(e, "verdict"), "".into())),
            _ => res.push(("pok/decode".into(), false, "".into())),
        },
        "pokts" => match (un::<ProofOfKnowledgeTimestamp<C>>(gets(e, "proof")), un::<PublicKey<C>>(gets(e, "pk"))) {
            (Ok(p), Ok(pk)) => res.push(("pokts/verify".into(), p.verify(pk, hex::decode(gets(e, "msg")).unwrap(), None).is_ok() == getb(e, "verdict"), "".into())),
            _ => res.push(("pokts/decode".into(), false, "".into())),
        },
        "shares" => {
            let sks: Result<Vec<SecretKeyShare<C>>, String> = geta(e, "skshares").iter().map(|s| un(s.as_str().unwrap())).collect();
            let sgs: Result<Vec<SignatureShare<C>>, String> = geta(e, "sigshares").iter().map(|s| un(s.as_str().unwrap())).collect();
            match (sks, sgs) {
                (Ok(sks), Ok(sgs)) => {
                    let k = SecretKey::<C>::combine(&sks[1..]).map(|k| hex::encode(k.to_be_bytes())).unwrap_or_default();
                    res.push(("shares/key".into(), k == gets(e, "sk"), "".into()));
                    let c = Signature::<C>::from_shares(&sgs[..2]).map(|s| hx(&s)).unwrap_or_default();
                    res.push(("shares/sig".into(), c == gets(e, "combined_sig"), "".into()));
                }
                _ => res.push(("shares/decode".into(), false, "".into())),
            }
        }
        "pop" => match (un::<ProofOfPossession<C>>(gets(e, "pop")), un::<PublicKey<C>>(gets(e, "pk"))) {
            (Ok(p), Ok(pk)) => res.push(("pop/verify".into(), p.verify(pk).is_ok() == getb(e, "verdict"), "".into())),
            _ => res.push(("pop/decode".into(), false, "".into())),
        },
        "elgamal" => match (un::<ElGamalProof<C>>(gets(e, "proof")), un::<PublicKey<C>>(gets(e, "pk"))) {
            (Ok(p), Ok(pk)) => {
                let mut kb = [0u8; 32];
                kb.copy_from_slice(&hex::decode(gets(e, "sk")).unwrap());
                let sk = Option::<SecretKey<C>>::from(SecretKey::<C>::from_be_bytes(&kb)).unwrap();
                let d = p.verify_and_decrypt(&sk).ok().map(|x| hex::encode(x.to_bytes().as_ref()));
                res.push(("elgamal/verify".into(), p.verify(pk).is_ok() == getb(e, "verdict") && d.as_deref() == e["decrypts_to"].as_str(), "".into()));
                res.push(("elgamal/generator".into(), Some(gets(e, "expected")) == e["decrypts_to"].as_str(), "".into()));
            }
            _ => res.push(("elgamal/decode".into(), false, "".into())),
        },
        "aggregate" => {
            let pks: Result<Vec<PublicKey<C>>, String> = geta(e, "pks").iter().map(|s| un(s.as_str().unwrap())).collect();
            match (pks, un::<AggregateSignature<C>>(gets(e, "agg")), un::<MultiSignature<C>>(gets(e, "multi"))) {
                (Ok(pks), Ok(agg), Ok(ms)) => {
                    let msg = hex::decode(gets(e, "msg")).unwrap();
                    let pairs: Vec<(PublicKey<C>, Vec<u8>)> = pks.iter().map(|p| (*p, msg.clone())).collect();
                    res.push(("aggregate/verify".into(), agg.verify(&pairs).is_ok() == getb(e, "agg_verdict"), "".into()));
                    res.push(("multi/verify".into(), ms.verify(MultiPublicKey::<C>::from_public_keys(&pks), &msg).is_ok() == getb(e, "multi_verdict"), "".into()));
                }
                _ => res.push(("aggregate/decode".into(), false, "".into())),
            }
        }
        "keygen" => {
            let k = SecretKey::<C>::from_hash(hex::decode(gets(e, "seed")).unwrap());
            res.push(("keygen/from_hash".into(), hex::encode(k.to_be_bytes()) == gets(e, "sk"), "".into()));
        }
        "det" => {
            thread_local! { static CACHE: std::cell::RefCell<BTreeMap<String, Vec<(String, String)>>> = std::cell::RefCell::new(BTreeMap::new()); }
            let g = gets(e, "group").to_string();
            let name = gets(e, "name");
            let cur = CACHE.with(|c| c.borrow_mut().entry(g.clone()).or_insert_with(|| det_ops::<C>(&g)).iter().find(|(n, _)| n == name).map(|(_, v)| v.clone()));
            res.push((format!("det/{}", name.split('/').next().unwrap_or("")), cur.as_deref() == Some(gets(e, "out")), name.to_string()));
        }
        x => res.push((format!("unknown/{x}"), false, "".into())),
    }
    let _ = lib;
    res
}

pub fn check(path: &str, tables: &Tables) -> Vec<Value> {
    let text = std::fs::read_to_string(path).expect("golden corpus");
    let mut counts: BTreeMap<(String, String, bool), (u64, String)> = BTreeMap::new();
    for line in text.lines().filter(|l| !l.trim().is_empty()) {
        let e: Value = serde_json::from_str(line).expect("corpus entry");
        let g = gets(&e, "group").to_string();
        let r = std::panic::catch_unwind(std::panic::AssertUnwindSafe(|| if g == "G1" { check_entry::<Bls12381G1Impl>(&e, tables) } else { check_entry::<Bls12381G2Impl>(&e, tables) }));
        let rs = r.unwrap_or_else(|_| vec![(format!("abort/{}", gets(&e, "kind")), false, "panic".into())]);
        for (k, ok, d) in rs {
            let ent = counts.entry((g.clone(), k, ok)).or_insert((0, String::new()));
            ent.0 += 1;
            if !ok && ent.1.is_empty() {
                ent.1 = format!("{} :: {}", d, &line[..line.len().min(300)]);
            }
        }
    }
    let mut out = vec![json!({"ev": "Reset", "group": "-"})];
    for ((g, k, ok), (n, d)) in counts {
        out.push(json!({"ev": "Golden", "group": g, "what": k, "same": ok, "count": n, "detail": d}));
    }
    out
}
