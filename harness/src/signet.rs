//! Replay of SigNet vectors (spec/SigNet.tla) on the real library, with the independent
//! evaluator as byte-level oracle.  One implementation test per model transition.
use crate::conc::*;
use crate::refeval::*;
use blsful::inner_types::{Field, Group, GroupEncoding};
use blsful::*;
use serde_json::{json, Value};

pub type Sc<C> = <<C as Pairing>::PublicKey as Group>::Scalar;

pub fn sc<C: BlsSignatureImpl>(k: i64) -> Sc<C> {
    if k >= 0 {
        Sc::<C>::from(k as u64)
    } else {
        -Sc::<C>::from((-k) as u64)
    }
}

pub fn scheme_of(s: &str) -> SignatureSchemes {
    match s {
        "Basic" => SignatureSchemes::Basic,
        "Aug" => SignatureSchemes::MessageAugmentation,
        "Pop" => SignatureSchemes::ProofOfPossession,
        x => panic!("unknown scheme {x}"),
    }
}
pub fn scheme_name(s: SignatureSchemes) -> &'static str {
    match s {
        SignatureSchemes::Basic => "Basic",
        SignatureSchemes::MessageAugmentation => "Aug",
        SignatureSchemes::ProofOfPossession => "Pop",
    }
}

pub fn wrap_sig<C: BlsSignatureImpl>(label: &str, p: <C as Pairing>::Signature) -> Signature<C> {
    match label {
        "Basic" => Signature::Basic(p),
        "Aug" => Signature::MessageAugmentation(p),
        "Pop" => Signature::ProofOfPossession(p),
        x => panic!("cannot wrap label {x} as Signature"),
    }
}

pub fn err_variant(e: &BlsError) -> &'static str {
    match e {
        BlsError::SigningError(_) => "SigningError",
        BlsError::InvalidInputs(_) => "InvalidInputs",
        BlsError::InvalidSignature => "InvalidSignature",
        BlsError::InvalidProof => "InvalidProof",
        BlsError::InvalidSignatureScheme => "InvalidSignatureScheme",
        BlsError::InvalidDecryptionShare => "InvalidDecryptionShare",
        BlsError::VsssError => "VsssError",
        BlsError::DeserializationError(_) => "DeserializationError",
    }
}

pub fn enc_s<C: BlsSignatureImpl>(p: &<C as Pairing>::Signature) -> Vec<u8> {
    p.to_bytes().as_ref().to_vec()
}
pub fn enc_k<C: BlsSignatureImpl>(p: &<C as Pairing>::PublicKey) -> Vec<u8> {
    p.to_bytes().as_ref().to_vec()
}

/// Outcome of replaying one vector
pub struct Outcome {
    pub ok: bool,
    pub obs: Value,
    pub why: String,
    pub notes: Vec<String>,
    /// number of additional concrete executions derived from this vector (bit flips, codecs ...)
    pub extra: u64,
}
impl Outcome {
    pub fn pass(obs: Value) -> Outcome {
        Outcome { ok: true, obs, why: String::new(), notes: vec![], extra: 0 }
    }
    pub fn fail(obs: Value, why: impl Into<String>) -> Outcome {
        Outcome { ok: false, obs, why: why.into(), notes: vec![], extra: 0 }
    }
}

pub struct Lib<'a> {
    pub conc: &'a Conc,
    pub tables: &'a Tables,
}

impl<'a> Lib<'a> {
    pub fn sk<C: BlsSignatureImpl>(&self, k: i64) -> SecretKey<C> {
        SecretKey::<C>(sc::<C>(k))
    }
    pub fn msg<C: BlsSignatureImpl>(&self, mr: &Value) -> Vec<u8> {
        let mut out = vec![];
        for ch in mr.as_array().expect("msg recipe array") {
            let c = gets(ch, "c");
            if c == "pk" {
                // the library's own encoding of the library's own public key
                out.extend_from_slice(&Vec::<u8>::from(&self.sk::<C>(geti(ch, "k")).public_key()));
            } else if let Some(name) = c.strip_prefix("dst:") {
                // a message that is byte for byte one of the library's own domain separation tags
                let group = if enc_k::<C>(&<C as Pairing>::PublicKey::generator()).len() == 96 { "G1" } else { "G2" };
                out.extend_from_slice(&self.tables.tag(group, name));
            } else {
                out.extend_from_slice(&self.conc.atom(c));
            }
        }
        out
    }
    pub fn pk<C: BlsSignatureImpl>(&self, pr: &Value) -> PublicKey<C> {
        let mut p = self.sk::<C>(geti(pr, "k")).public_key().0;
        for o in geta(pr, "ops") {
            match gets(o, "op") {
                "Neg" => p = -p,
                "AddGen" => p = p + <C as Pairing>::PublicKey::generator() * sc::<C>(geti(o, "n")),
                "AddKey" => p = p + self.sk::<C>(geti(o, "k")).public_key().0,
                "Identity" => p = <C as Pairing>::PublicKey::identity(),
                x => panic!("lib: unknown pk op {x}"),
            }
        }
        PublicKey(p)
    }
    /// honest signature through the public API; PopProof = proof_of_possession()
    pub fn sign_pt<C: BlsSignatureImpl>(&self, k: i64, scheme: &str, msg: &[u8]) -> <C as Pairing>::Signature {
        let sk = self.sk::<C>(k);
        if scheme == "PopProof" {
            sk.proof_of_possession().expect("pop of non-zero key").0
        } else {
            *sk.sign(scheme_of(scheme), msg).expect("sign with non-zero key").as_raw_value()
        }
    }
    pub fn sig<C: BlsSignatureImpl>(&self, sr: &Value) -> (String, <C as Pairing>::Signature) {
        let b = &sr["base"];
        let mut label = gets(b, "scheme").to_string();
        let mut p = self.sign_pt::<C>(geti(b, "k"), &label, &self.msg::<C>(&b["msg"]));
        for o in geta(sr, "ops") {
            match gets(o, "op") {
                "Neg" => p = -p,
                "AddGen" => p = p + <C as Pairing>::Signature::generator() * sc::<C>(geti(o, "n")),
                "Scale" => p = p * sc::<C>(geti(o, "n")),
                "Relabel" | "AsSig" => label = gets(o, "s").to_string(),
                "AsPop" => label = "PopProof".to_string(),
                "Identity" => p = <C as Pairing>::Signature::identity(),
                "AddSig" => p = p + self.sign_pt::<C>(geti(o, "k"), gets(o, "s"), &self.msg::<C>(&o["m"])),
                x => panic!("lib: unknown sig op {x}"),
            }
        }
        (label, p)
    }
}

fn res_class<T>(r: &BlsResult<T>) -> (&'static str, &'static str) {
    match r {
        Ok(_) => ("Ok", ""),
        Err(e) => ("Err", err_variant(e)),
    }
}

fn expect_res(v: &Value) -> &str {
    gets(&v["expect"], "res")
}

fn check_class(v: &Value, got: (&str, &str), obs: Value) -> Outcome {
    let want = expect_res(v);
    if want != got.0 {
        return Outcome::fail(obs, format!("spec predicts {want}, library returned {}({})", got.0, got.1));
    }
    let mut o = Outcome::pass(obs);
    let wv = gets(&v["expect"], "err");
    if got.0 == "Err" && wv != got.1 {
        o.notes.push(format!("error variant: spec {wv}, library {}", got.1));
    }
    o
}

/// a different projective representation of the same point
fn rerandomise<G: Group + Copy>(p: G) -> G {
    (p + G::generator() + G::generator()) - G::generator().double()
}

pub fn run<C, R>(v: &Value, conc: &Conc, tables: &Tables) -> Outcome
where
    C: BlsSignatureImpl + PartialEq + Eq + std::fmt::Debug,
    R: RefG,
{
    let lib = Lib { conc, tables };
    let rf = RefCtx { conc, tables };
    match gets(v, "act") {
        "Sign" => {
            let k = geti(v, "k");
            let scheme = gets(v, "scheme");
            let msg = lib.msg::<C>(&v["msg"]);
            let sk = lib.sk::<C>(k);
            // a refused call first, on the same thread (zero key, longer message): the judged call must not depend on it
            {
                let mut longer = msg.clone();
                longer.extend_from_slice(b"-a-longer-message-signed-before");
                let _ = SecretKey::<C>(Sc::<C>::ZERO).sign(scheme_of(scheme), &longer).is_ok();
            }
            let r = sk.sign(scheme_of(scheme), &msg);
            let mut o = check_class(v, res_class(&r), json!({"res": res_class(&r).0, "err": res_class(&r).1}));
            if !o.ok {
                return o;
            }
            if let Ok(sig) = r {
                // determinism
                let again = sk.sign(scheme_of(scheme), &msg).unwrap();
                if again != sig {
                    return Outcome::fail(json!({}), "signing is not deterministic");
                }
                // byte-for-byte the IETF value (spec term evaluated by the independent evaluator)
                let want = R::enc_s(&rf.sign::<R>(k, scheme, &rf.msg::<R>(&v["msg"])));
                let got = enc_s::<C>(sig.as_raw_value());
                if want != got {
                    return Outcome::fail(
                        json!({"lib": hex::encode(got), "ref": hex::encode(want)}),
                        "signature bytes differ from the reference value sk*hash_to_curve(tag, framed msg)",
                    );
                }
                // public key bytes
                let pkb = Vec::<u8>::from(&sk.public_key());
                if pkb != R::enc_k(&rf.pk_of::<R>(k)) {
                    return Outcome::fail(json!({"lib": hex::encode(pkb)}), "public key bytes differ from sk*P of the reference");
                }
                o.extra += 2;
            }
            // the same action through the trait-level entry point and the core function with the scheme's tag
            {
                let t = crate::paths::sign::<C>(scheme, &sk.0, &msg);
                let lib_bytes = sk.sign(scheme_of(scheme), &msg).ok().map(|s| enc_s::<C>(s.as_raw_value()));
                if t.as_ref().ok().map(|p| enc_s::<C>(p)) != lib_bytes {
                    return Outcome::fail(json!({"path": "trait"}), "the trait-level sign and SecretKey::sign disagree");
                }
                if scheme != "Aug" {
                    let c = <C as BlsSignatureCore>::core_sign(&sk.0, &msg, crate::paths::dst::<C>(scheme));
                    if c.as_ref().ok().map(|p| enc_s::<C>(p)) != lib_bytes {
                        return Outcome::fail(json!({"path": "core"}), "core_sign with the scheme's tag and SecretKey::sign disagree");
                    }
                }
                if enc_k::<C>(&<C as BlsSignatureCore>::public_key(&sk.0)) != Vec::<u8>::from(&sk.public_key())[..] {
                    return Outcome::fail(json!({"path": "trait"}), "the trait-level public_key and SecretKey::public_key disagree");
                }
                o.extra += 3;
            }
            o
        }
        "Verify" => {
            let pk = lib.pk::<C>(&v["pk"]);
            let (label, pt) = lib.sig::<C>(&v["sig"]);
            let msg = lib.msg::<C>(&v["msg"]);
            if label != gets(v, "label") {
                return Outcome::fail(json!({}), "harness label mismatch");
            }
            let sig = wrap_sig::<C>(&label, pt);
            // the honest tuple behind this vector is verified first (same thread): base signature, its own key and message
            {
                let b = &v["sig"]["base"];
                let (bl, bk) = (gets(b, "scheme"), geti(b, "k"));
                if bl != "PopProof" {
                    let bm = lib.msg::<C>(&b["msg"]);
                    let bs = wrap_sig::<C>(bl, lib.sign_pt::<C>(bk, bl, &bm));
                    let _ = bs.verify(&lib.sk::<C>(bk).public_key(), &bm).is_ok();
                }
            }
            // ... and a rejected call (identity signature over a longer message under the same key)
            {
                let mut longer = msg.clone();
                longer.extend_from_slice(b"-a-longer-message-verified-before");
                let _ = wrap_sig::<C>(&label, <C as Pairing>::Signature::identity()).verify(&pk, &longer).is_ok();
            }
            let r = sig.verify(&pk, &msg);
            let got = res_class(&r);
            let mut o = check_class(v, got, json!({"res": got.0, "err": got.1}));
            if !o.ok {
                return o;
            }
            // reference: same recipe evaluated independently, then IETF CoreVerify
            let rpk = rf.pk::<R>(&v["pk"]);
            let (rlabel, rpt) = rf.sig::<R>(&v["sig"]);
            let rmsg = rf.msg::<R>(&v["msg"]);
            if R::enc_k(&rpk) != enc_k::<C>(&pk.0) || R::enc_s(&rpt) != enc_s::<C>(&pt) || rmsg != msg || rlabel != label {
                return Outcome::fail(json!({}), "library and reference disagree on the operand bytes of this vector");
            }
            let rv = rf.verify::<R>(&rpk, &rlabel, &rpt, &rmsg);
            if rv != (got.0 == "Ok") {
                return Outcome::fail(json!({"lib": got.0, "ref": rv}), "decision differs from the independent CoreVerify");
            }
            o.extra += 1;
            // the same tuple through the trait-level entry point
            {
                let t = crate::paths::class(&crate::paths::verify::<C>(&label, pk.0, pt, &msg));
                if t.0 != got.0 {
                    return Outcome::fail(json!({"path": "trait", "trait": t.0, "struct": got.0}), format!("spec predicts {}, the trait-level verify returned {}", expect_res(v), t.0));
                }
                o.extra += 1;
            }
            // same point, other projective representation: same decision
            let sig2 = wrap_sig::<C>(&label, rerandomise(pt));
            let pk2 = PublicKey::<C>(rerandomise(pk.0));
            let r2 = sig2.verify(&pk2, &msg);
            if res_class(&r2).0 != got.0 {
                return Outcome::fail(json!({}), "decision changes with the projective representation");
            }
            o.extra += 1;
            if getb(v, "honest") {
                // C03: the library accepts the signature the independent implementation makes for this tuple
                let mut rb = vec![match label.as_str() { "Basic" => 0u8, "Aug" => 1, _ => 2 }];
                rb.extend_from_slice(&R::enc_s(&rpt));
                match Signature::<C>::try_from(rb.as_slice()) {
                    Ok(rs) => {
                        if rs.verify(&pk, &msg).is_err() {
                            return Outcome::fail(json!({}), "the library rejects the reference-made signature");
                        }
                    }
                    Err(e) => return Outcome::fail(json!({}), format!("the library cannot decode the reference-made signature: {e}")),
                }
                o.extra += 1;
                // C02: the signature moved outside the subgroup (+ small-order point) through every decoder must not verify
                {
                    let shifted = crate::codecs::points::shifted(&enc_s::<C>(&pt));
                    let tagb = match label.as_str() { "Basic" => 0u8, "Aug" => 1, _ => 2 };
                    let mut sb = vec![tagb];
                    sb.extend_from_slice(&shifted);
                    let jn = match label.as_str() { "Basic" => "Basic", "Aug" => "MessageAugmentation", _ => "ProofOfPossession" };
                    let decoded: Vec<Signature<C>> = [
                        Signature::<C>::try_from(sb.as_slice()).ok(),
                        serde_json::from_str::<Signature<C>>(&format!("{{\"{}\":\"{}\"}}", jn, hex::encode(&shifted))).ok(),
                    ]
                    .into_iter()
                    .flatten()
                    .collect();
                    for s2 in decoded {
                        if s2.verify(&pk, &msg).is_ok() {
                            return Outcome::fail(json!({}), "a signature moved outside the subgroup decodes and still verifies");
                        }
                    }
                    o.extra += 2;
                }
                // C01: still verifies after key, public key and signature went through every encoding
                let k = geti(&v["pk"], "k");
                match crate::codec::carry_through::<C>(&lib.sk::<C>(k), &pk, &sig, &msg) {
                    Ok(n) => o.extra += n,
                    Err(e) => return Outcome::fail(json!({}), format!("after encoding round trip: {e}")),
                }
                // C02: every single-bit flip, truncation and one-byte extension of the message
                if msg.len() <= 16 {
                    let mut alts: Vec<Vec<u8>> = vec![];
                    for i in 0..msg.len() * 8 {
                        let mut m = msg.clone();
                        m[i / 8] ^= 1 << (i % 8);
                        alts.push(m);
                    }
                    for l in 0..msg.len() {
                        alts.push(msg[..l].to_vec());
                    }
                    let mut e = msg.clone();
                    e.push(0);
                    alts.push(e);
                    for m in alts {
                        if sig.verify(&pk, &m).is_ok() {
                            return Outcome::fail(json!({"msg": hex::encode(&m)}), "a perturbed message still verifies");
                        }
                        o.extra += 1;
                    }
                }
            }
            o
        }
        "KeyGen" => {
            use rand::{Rng, SeedableRng};
            let n = geti(v, "seedlen") as usize;
            let seed: Vec<u8> = crate::signcrypt::msg_of_len(conc, "seed", n);
            let salt = tables.salt(gets(v, "salt"));
            let l = geti(v, "l") as usize;
            let how = gets(v, "how");
            // a longer derivation first, on the same thread
            let _ = SecretKey::<C>::from_hash([0xa5u8; 77]).to_be_bytes();
            let (got, ikm): ([u8; 32], Vec<u8>) = match how {
                "from_hash" => (SecretKey::<C>::from_hash(&seed).to_be_bytes(), seed.clone()),
                "facade_from_hash" => (BlsSignature::<C>::secret_key_from_hash(&seed).to_be_bytes(), seed.clone()),
                "enum_from_hash" => {
                    let e = SecretKeyEnum::from_hash(if R::NAME == "G1" { Bls12381::G1 } else { Bls12381::G2 }, &seed);
                    let mut b = [0u8; 32];
                    b.copy_from_slice(&e.to_be_bytes()[1..]);
                    (b, seed.clone())
                }
                _ => {
                    // the IKM is the first 32 bytes of the caller's generator
                    let ikm: [u8; 32] = rand_chacha::ChaCha20Rng::seed_from_u64(n as u64).gen();
                    let k = if how == "random_seeded" { SecretKey::<C>::random(rand_chacha::ChaCha20Rng::seed_from_u64(n as u64)) } else { BlsSignature::<C>::random_secret_key(rand_chacha::ChaCha20Rng::seed_from_u64(n as u64)) };
                    (k.to_be_bytes(), ikm.to_vec())
                }
            };
            let want = hkdf_scalar(&salt, &ikm, l).to_be_bytes();
            if got != want {
                return Outcome::fail(json!({"lib": hex::encode(got), "ref": hex::encode(want), "how": how, "seedlen": n}), "derived secret key differs from the KeyGen construction of the draft");
            }
            let mut o = Outcome::pass(json!({}));
            o.extra += 1;
            o
        }
        "PopProve" => {
            let k = geti(v, "k");
            let sk = lib.sk::<C>(k);
            let r = sk.proof_of_possession();
            let got = res_class(&r);
            let mut o = check_class(v, got, json!({"res": got.0, "err": got.1}));
            if !o.ok {
                return o;
            }
            if let Ok(p) = r {
                if sk.proof_of_possession().unwrap() != p {
                    return Outcome::fail(json!({}), "proof of possession is not deterministic");
                }
                let want = R::enc_s(&rf.sign::<R>(k, "PopProof", &[]));
                if want != enc_s::<C>(&p.0) {
                    return Outcome::fail(json!({"lib": hex::encode(enc_s::<C>(&p.0)), "ref": hex::encode(want)}),
                        "proof of possession bytes differ from the reference value");
                }
                o.extra += 2;
            }
            {
                let t = <C as BlsSignaturePop>::pop_prove(&sk.0);
                if t.as_ref().ok().map(|p| enc_s::<C>(p)) != sk.proof_of_possession().ok().map(|p| enc_s::<C>(&p.0)) {
                    return Outcome::fail(json!({"path": "trait"}), "the trait-level pop_prove and SecretKey::proof_of_possession disagree");
                }
                o.extra += 1;
            }
            o
        }
        "PopVerify" => {
            let pk = lib.pk::<C>(&v["pk"]);
            let (_label, pt) = lib.sig::<C>(&v["proof"]);
            // a rejected proof first, on the same thread (another key's generator multiple)
            let _ = ProofOfPossession::<C>(<C as Pairing>::Signature::generator()).verify(PublicKey::<C>(pk.0 + <C as Pairing>::PublicKey::generator())).is_ok();
            let r = ProofOfPossession::<C>(pt).verify(pk);
            let got = res_class(&r);
            let mut o = check_class(v, got, json!({"res": got.0, "err": got.1}));
            if !o.ok {
                return o;
            }
            let rpk = rf.pk::<R>(&v["pk"]);
            let (_l, rpt) = rf.sig::<R>(&v["proof"]);
            if R::enc_k(&rpk) != enc_k::<C>(&pk.0) || R::enc_s(&rpt) != enc_s::<C>(&pt) {
                return Outcome::fail(json!({}), "library and reference disagree on the operand bytes of this vector");
            }
            let rv = rf.verify::<R>(&rpk, "PopProof", &rpt, &[]);
            if rv != (got.0 == "Ok") {
                return Outcome::fail(json!({"lib": got.0, "ref": rv}), "decision differs from the independent PopVerify");
            }
            o.extra += 1;
            {
                let t = crate::paths::class(&<C as BlsSignaturePop>::pop_verify(pk.0, pt));
                if t.0 != got.0 {
                    return Outcome::fail(json!({"path": "trait", "trait": t.0, "struct": got.0}), format!("spec predicts {}, the trait-level pop_verify returned {}", expect_res(v), t.0));
                }
                o.extra += 1;
            }
            if getb(v, "honest") {
                // keys at the edge of the coordinate range: the x-coordinate of the public key begins with the leading
                // word of the field modulus (0x1a0111ea) - one key in 2^31, found by search; a range check on encoded
                // coordinates that is off by one refuses exactly such keys.  Their own proofs and signatures verify.
                for hx in ["16e19b3bb69981659efe4da4003aa65ddd0730d2f28d3c162cc55ae6d4306fb7", "16e19b3bb69981659efe4da4003aa65ddd0730d2f28d3c162cc50ae6d19190bb"] {
                    let mut b = [0u8; 32];
                    hex::decode_to_slice(hx, &mut b).unwrap();
                    if let Some(esk) = Option::<SecretKey<C>>::from(SecretKey::<C>::from_be_bytes(&b)) {
                        let epk = esk.public_key();
                        let ok = esk.proof_of_possession().map(|p| p.verify(epk).is_ok()).unwrap_or(false)
                            && esk.sign(SignatureSchemes::ProofOfPossession, b"edge").map(|s| s.verify(&epk, b"edge").is_ok()).unwrap_or(false)
                            && PublicKey::<C>::try_from(Vec::<u8>::from(&epk).as_slice()).map(|q| q == epk).unwrap_or(false);
                        if !ok {
                            return Outcome::fail(json!({"edge_key": hx}), "a key whose public key has an x-coordinate at the edge of the field range: its own proof of possession / signature / encoding is refused");
                        }
                        o.extra += 1;
                    }
                }
                // a change of the proof outside the subgroup (proof + small-order point, through every decoder):
                // it must not decode, and if it ever does it must not verify
                let shifted = crate::codecs::points::shifted(&enc_s::<C>(&pt));
                let decoded: Vec<ProofOfPossession<C>> = [
                    ProofOfPossession::<C>::try_from(shifted.as_slice()).ok(),
                    serde_bare::from_slice::<ProofOfPossession<C>>(&shifted).ok(),
                    serde_json::from_str::<ProofOfPossession<C>>(&format!("\"{}\"", hex::encode(&shifted))).ok(),
                ]
                .into_iter()
                .flatten()
                .collect();
                for p2 in decoded {
                    if p2.verify(pk).is_ok() {
                        return Outcome::fail(json!({}), "a proof of possession moved outside the subgroup decodes and still verifies");
                    }
                }
                o.extra += 3;
            }
            o
        }
        "Aggregate" | "Accumulate" => {
            let arts: Vec<(String, <C as Pairing>::Signature)> = geta(v, "sigs").iter().map(|s| lib.sig::<C>(s)).collect();
            let sigs: Vec<Signature<C>> = arts.iter().map(|(l, p)| wrap_sig::<C>(l, *p)).collect();
            let mut sum = <C as Pairing>::Signature::identity();
            for (_, p) in &arts {
                sum += *p;
            }
            let (got, raw, lab) = if gets(v, "act") == "Aggregate" {
                let r = AggregateSignature::<C>::from_signatures(&sigs);
                let raw = r.as_ref().ok().map(|a| match a {
                    AggregateSignature::Basic(p) => ("Basic", *p),
                    AggregateSignature::MessageAugmentation(p) => ("Aug", *p),
                    AggregateSignature::ProofOfPossession(p) => ("Pop", *p),
                });
                (res_class(&r), raw.map(|x| x.1), raw.map(|x| x.0))
            } else {
                let r = MultiSignature::<C>::from_signatures(&sigs);
                let raw = r.as_ref().ok().map(|a| match a {
                    MultiSignature::Basic(p) => ("Basic", *p),
                    MultiSignature::MessageAugmentation(p) => ("Aug", *p),
                    MultiSignature::ProofOfPossession(p) => ("Pop", *p),
                });
                (res_class(&r), raw.map(|x| x.1), raw.map(|x| x.0))
            };
            let mut o = check_class(v, got, json!({"res": got.0, "err": got.1}));
            if !o.ok {
                return o;
            }
            if let Some(p) = raw {
                if p != sum {
                    return Outcome::fail(json!({}), "aggregate is not the plain group sum of the parts");
                }
                if lab != Some(arts[0].0.as_str()) {
                    return Outcome::fail(json!({}), "aggregate carries another scheme label than its parts");
                }
                // reference sum, byte for byte
                let mut rsum = R::S::identity();
                for s in geta(v, "sigs") {
                    rsum = rsum + rf.sig::<R>(s).1;
                }
                if R::enc_s(&rsum) != enc_s::<C>(&p) {
                    return Outcome::fail(json!({}), "aggregate bytes differ from the reference sum");
                }
                o.extra += 1;
                let pts: Vec<<C as Pairing>::Signature> = arts.iter().map(|(_, p)| *p).collect();
                for t in crate::paths::sig_sums::<C>(&pts) {
                    if t != sum {
                        return Outcome::fail(json!({"path": "trait"}), "a trait-level signature sum differs from the plain group sum");
                    }
                    o.extra += 1;
                }
            }
            o
        }
        "AggVerify" => {
            let arts: Vec<(String, <C as Pairing>::Signature)> = geta(v, "sigs").iter().map(|s| lib.sig::<C>(s)).collect();
            let sigs: Vec<Signature<C>> = arts.iter().map(|(l, p)| wrap_sig::<C>(l, *p)).collect();
            let agg = match AggregateSignature::<C>::from_signatures(&sigs) {
                Ok(a) => a,
                Err(e) => return Outcome::fail(json!({}), format!("aggregate of honest signatures refused: {e}")),
            };
            let pairs: Vec<(PublicKey<C>, Vec<u8>)> =
                geta(v, "pairs").iter().map(|p| (lib.pk::<C>(&p["pk"]), lib.msg::<C>(&p["m"]))).collect();
            // a rejected list first, on the same thread (one more pair than was signed)
            {
                let mut more = pairs.clone();
                more.push((PublicKey::<C>(<C as Pairing>::PublicKey::generator()), b"an unsigned pair, verified before".to_vec()));
                let _ = agg.verify(&more).is_ok();
            }
            let r = agg.verify(&pairs);
            let got = res_class(&r);
            let mut o = check_class(v, got, json!({"res": got.0, "err": got.1}));
            if !o.ok {
                return o;
            }
            // reference: scheme-level AggregateVerify of the draft
            let scheme = gets(v, "scheme");
            let (tag, pre) = rf.scheme_tag(scheme);
            let distinct = tables.0["schemes"][scheme]["distinct"].as_bool().unwrap_or(false);
            let rpairs: Vec<(R::K, Vec<u8>, Vec<u8>)> = geta(v, "pairs")
                .iter()
                .map(|p| {
                    let pk = rf.pk::<R>(&p["pk"]);
                    let m = rf.msg::<R>(&p["m"]);
                    let hi = rf.hash_input::<R>(&pre, &pk, &m);
                    (pk, m, hi)
                })
                .collect();
            let mut rsum = R::S::identity();
            for s in geta(v, "sigs") {
                rsum = rsum + rf.sig::<R>(s).1;
            }
            let mut rv = true;
            if distinct {
                for i in 0..rpairs.len() {
                    for j in 0..i {
                        if rpairs[i].1 == rpairs[j].1 {
                            rv = false;
                        }
                    }
                }
            }
            if rv {
                let hp: Vec<(R::K, Vec<u8>)> = rpairs.iter().map(|(pk, _, hi)| (*pk, hi.clone())).collect();
                rv = !bool::from(rsum.is_identity()) && rf.core_aggregate_verify::<R>(&hp, &rsum, &tag);
            }
            if rv != (got.0 == "Ok") {
                return Outcome::fail(json!({"lib": got.0, "ref": rv}), "decision differs from the independent AggregateVerify");
            }
            o.extra += 1;
            {
                let mut sum = <C as Pairing>::Signature::identity();
                for (_, p) in &arts {
                    sum += *p;
                }
                let tp: Vec<(<C as Pairing>::PublicKey, Vec<u8>)> = pairs.iter().map(|(p, m)| (p.0, m.clone())).collect();
                let t = crate::paths::class(&crate::paths::aggregate_verify::<C>(scheme, &tp, sum));
                if t.0 != got.0 {
                    return Outcome::fail(json!({"path": "trait", "trait": t.0, "struct": got.0}), format!("spec predicts {}, the trait-level aggregate_verify returned {}", expect_res(v), t.0));
                }
                o.extra += 1;
            }
            o
        }
        "MultiVerify" => {
            let arts: Vec<(String, <C as Pairing>::Signature)> = geta(v, "sigs").iter().map(|s| lib.sig::<C>(s)).collect();
            let sigs: Vec<Signature<C>> = arts.iter().map(|(l, p)| wrap_sig::<C>(l, *p)).collect();
            let ms = match MultiSignature::<C>::from_signatures(&sigs) {
                Ok(a) => a,
                Err(e) => return Outcome::fail(json!({}), format!("accumulation of honest signatures refused: {e}")),
            };
            let pks: Vec<PublicKey<C>> = geta(v, "keys").iter().map(|k| lib.sk::<C>(k.as_i64().unwrap()).public_key()).collect();
            let mpk = MultiPublicKey::<C>::from_public_keys(&pks);
            let msg = lib.msg::<C>(&v["msg"]);
            let _ = ms.verify(MultiPublicKey::<C>(mpk.0 + <C as Pairing>::PublicKey::generator()), b"another message, verified before").is_ok();
            let r = ms.verify(mpk, &msg);
            let got = res_class(&r);
            let mut o = check_class(v, got, json!({"res": got.0, "err": got.1}));
            if !o.ok {
                return o;
            }
            // reference: plain sums, then CoreVerify
            let mut rk = R::K::identity();
            for k in geta(v, "keys") {
                rk = rk + rf.pk_of::<R>(k.as_i64().unwrap());
            }
            if R::enc_k(&rk) != enc_k::<C>(&mpk.0) {
                return Outcome::fail(json!({}), "accumulated public key is not the plain sum");
            }
            let mut rsum = R::S::identity();
            for s in geta(v, "sigs") {
                rsum = rsum + rf.sig::<R>(s).1;
            }
            let rv = !bool::from(rsum.is_identity()) && rf.verify::<R>(&rk, gets(v, "scheme"), &rsum, &rf.msg::<R>(&v["msg"]));
            if rv != (got.0 == "Ok") {
                return Outcome::fail(json!({"lib": got.0, "ref": rv}), "decision differs from the independent verification");
            }
            o.extra += 1;
            {
                let raw: Vec<<C as Pairing>::PublicKey> = pks.iter().map(|p| p.0).collect();
                for t in crate::paths::key_sums::<C>(&raw) {
                    if t != mpk.0 {
                        return Outcome::fail(json!({"path": "trait"}), "a trait-level public key sum differs from MultiPublicKey::from_public_keys");
                    }
                }
                let mut sum = <C as Pairing>::Signature::identity();
                for (_, p) in &arts {
                    sum += *p;
                }
                let t = crate::paths::class(&crate::paths::multi_verify::<C>(gets(v, "scheme"), &raw, sum, &msg));
                if t.0 != got.0 {
                    return Outcome::fail(json!({"path": "trait", "trait": t.0, "struct": got.0}), format!("spec predicts {}, the trait-level multi-signature verification returned {}", expect_res(v), t.0));
                }
                o.extra += 3;
            }
            o
        }
        x => Outcome::fail(json!({}), format!("signet: unknown act {x}")),
    }
}

#[allow(dead_code)]
pub fn zero_scalar<C: BlsSignatureImpl>() -> Sc<C> {
    Sc::<C>::ZERO
}
