//! blsful verification harness: replays TLC-generated vectors on the real library (spec -> impl)
//! and records traces of the real library for TLC to validate (impl -> spec).
mod codec;
#[macro_use]
mod codecs;
mod conc;
mod corpus;
mod elgamal;
#[cfg(feature = "hooks")]
mod pok;
mod record;
mod refeval;
#[cfg(feature = "hooks")]
mod rngdrv;
mod signcrypt;
mod paths;
mod signet;
mod threshold;
mod timelock;
mod witness;

use blsful::{Bls12381G1Impl, Bls12381G2Impl};
use conc::*;
use refeval::*;
use serde_json::{json, Value};
use std::collections::BTreeMap;
use std::io::{BufRead, Write};
use std::panic::{catch_unwind, AssertUnwindSafe};
use std::sync::atomic::{AtomicUsize, Ordering};
use std::sync::{Arc, Mutex};

fn arg<'a>(args: &'a [String], name: &str) -> Option<&'a str> {
    args.iter().position(|a| a == name).and_then(|i| args.get(i + 1)).map(|s| s.as_str())
}

fn run_vector(v: &Value, group: &str, conc: &Conc, tables: &Tables) -> signet::Outcome {
    let spec = v.get("spec").and_then(|s| s.as_str()).unwrap_or("SigNet");
    let f = || match (spec, group) {
        ("SigNet", "G1") => signet::run::<Bls12381G1Impl, RefG1>(v, conc, tables),
        ("SigNet", "G2") => signet::run::<Bls12381G2Impl, RefG2>(v, conc, tables),
        ("SignCrypt", "G1") => signcrypt::run::<Bls12381G1Impl, RefG1>(v, conc, tables),
        ("SignCrypt", "G2") => signcrypt::run::<Bls12381G2Impl, RefG2>(v, conc, tables),
        ("TimeLock", "G1") => timelock::run::<Bls12381G1Impl, RefG1>(v, conc, tables),
        ("TimeLock", "G2") => timelock::run::<Bls12381G2Impl, RefG2>(v, conc, tables),
        ("ElGamal", "G1") => elgamal::run::<Bls12381G1Impl, RefG1>(v, conc, tables),
        ("ElGamal", "G2") => elgamal::run::<Bls12381G2Impl, RefG2>(v, conc, tables),
        #[cfg(feature = "hooks")]
        ("Pok", "G1") => pok::run::<Bls12381G1Impl, RefG1>(v, conc, tables),
        #[cfg(feature = "hooks")]
        ("Pok", "G2") => pok::run::<Bls12381G2Impl, RefG2>(v, conc, tables),
        ("Codec", "G1") => codecs::run::<Bls12381G1Impl, RefG1>(v, conc, tables, "G1"),
        ("Codec", "G2") => codecs::run::<Bls12381G2Impl, RefG2>(v, conc, tables, "G2"),
        ("Threshold", "G1") => threshold::run::<Bls12381G1Impl, RefG1>(v, conc, tables),
        ("Threshold", "G2") => threshold::run::<Bls12381G2Impl, RefG2>(v, conc, tables),
        (s, g) => signet::Outcome::fail(json!({}), format!("no interpreter for spec {s} group {g}")),
    };
    match catch_unwind(AssertUnwindSafe(f)) {
        Ok(o) => o,
        Err(p) => {
            let msg = p.downcast_ref::<String>().cloned().or_else(|| p.downcast_ref::<&str>().map(|s| s.to_string())).unwrap_or_default();
            let mut o = signet::Outcome::fail(json!({"abort": msg}), "call aborted (panic)");
            o.notes.push("abort".into());
            o
        }
    }
}

fn replay(args: &[String]) -> i32 {
    let vec_path = arg(args, "--vectors").expect("--vectors");
    let out_path = arg(args, "--out").expect("--out");
    let tables = Tables::load(arg(args, "--tables").expect("--tables"));
    if let Err(e) = paths::api_check(&tables) {
        eprintln!("api-check: {e}");
        return 2;
    }
    let groups: Vec<String> = arg(args, "--groups").unwrap_or("G1,G2").split(',').map(|s| s.to_string()).collect();
    let profiles: Vec<usize> = arg(args, "--profiles").unwrap_or("5").split(',').map(|s| s.parse().unwrap()).collect();
    let seed: u64 = arg(args, "--seed").unwrap_or("0").parse().unwrap();
    let threads: usize = arg(args, "--threads").unwrap_or("16").parse().unwrap();
    let max_fail: usize = arg(args, "--max-fail").unwrap_or("25").parse().unwrap();
    let alphabet_arg: Option<u8> = arg(args, "--alphabet").and_then(|a| a.parse().ok());

    let f = std::fs::File::open(vec_path).expect("open vectors");
    let vectors: Vec<Value> = std::io::BufReader::new(f)
        .lines()
        .map(|l| l.unwrap())
        .filter(|l| !l.trim().is_empty())
        .map(|l| serde_json::from_str(&l).expect("vector json"))
        .collect();
    // work items: (vector index, group, profile)
    let mut items = vec![];
    for (i, _) in vectors.iter().enumerate() {
        for g in &groups {
            for p in &profiles {
                items.push((i, g.clone(), *p));
            }
        }
    }
    let vectors = Arc::new(vectors);
    let items = Arc::new(items);
    let next = Arc::new(AtomicUsize::new(0));
    let fails: Arc<Mutex<Vec<Value>>> = Arc::new(Mutex::new(vec![]));
    let buckets: Arc<Mutex<BTreeMap<String, usize>>> = Arc::new(Mutex::new(BTreeMap::new()));
    let stats: Arc<Mutex<BTreeMap<String, [u64; 4]>>> = Arc::new(Mutex::new(BTreeMap::new()));
    let notes: Arc<Mutex<BTreeMap<String, u64>>> = Arc::new(Mutex::new(BTreeMap::new()));
    // silence panic messages from catch_unwind'ed aborts
    std::panic::set_hook(Box::new(|_| {}));
    // watchdog: a call that does not return is an outcome too (non-termination / unbounded work on one input):
    // per worker, the item in flight and the instant it started
    let hang_limit: u64 = arg(args, "--hang-limit").unwrap_or("240").parse().unwrap();
    let t0 = std::time::Instant::now();
    let flight: Arc<Vec<(AtomicUsize, std::sync::atomic::AtomicU64)>> = Arc::new((0..threads).map(|_| (AtomicUsize::new(usize::MAX), std::sync::atomic::AtomicU64::new(0))).collect());
    {
        let (flight, items, vectors, fails, out_path) = (flight.clone(), items.clone(), vectors.clone(), fails.clone(), out_path.to_string());
        let (groups, profiles) = (groups.clone(), profiles.clone());
        std::thread::spawn(move || loop {
            std::thread::sleep(std::time::Duration::from_millis(500));
            let now = t0.elapsed().as_secs();
            for (ix, started) in flight.iter() {
                let i = ix.load(Ordering::Relaxed);
                let st = started.load(Ordering::Relaxed);
                if i != usize::MAX && now > st + hang_limit {
                    let (vi, g, p) = &items[i];
                    let mut f = fails.lock().map(|f| f.clone()).unwrap_or_default();
                    f.insert(0, json!({"vector": vectors[*vi], "group": g, "atom_len": p, "seed": seed, "observed": {"hang": true},
                                       "why": format!("call did not return within {hang_limit} s (non-termination or unbounded work on one input)")}));
                    let summary = json!({"vectors": vectors.len(), "executions": i, "derived_executions": 0, "failed": f.len(), "groups": groups, "profiles": profiles,
                                         "seed": seed, "per_act": {}, "notes": {"hang": 1}, "failures": f});
                    if let Ok(mut out) = std::fs::File::create(&out_path) {
                        let _ = writeln!(out, "{}", serde_json::to_string_pretty(&summary).unwrap());
                    }
                    println!("replay: a call did not return within {hang_limit} s");
                    std::process::exit(1);
                }
            }
        });
    }
    let mut hs = vec![];
    for w in 0..threads {
        let (vectors, items, next, fails, stats, notes, tables, buckets) =
            (vectors.clone(), items.clone(), next.clone(), fails.clone(), stats.clone(), notes.clone(), tables.clone(), buckets.clone());
        let flight = flight.clone();
        hs.push(std::thread::Builder::new().stack_size(64 << 20).spawn(move || {
            let mut local: BTreeMap<String, [u64; 4]> = BTreeMap::new();
            let mut lnotes: BTreeMap<String, u64> = BTreeMap::new();
            loop {
                let ix = next.fetch_add(1, Ordering::Relaxed);
                if ix >= items.len() {
                    break;
                }
                let (vi, g, p) = &items[ix];
                let v = &vectors[*vi];
                // the atom alphabet rotates with the vector index (a recorded failure carries the one it ran under)
                let alphabet = match alphabet_arg { Some(a) => a, None => (*vi % 3) as u8 };
                let conc = Conc { atom_len: *p, seed, alphabet };
                flight[w].1.store(t0.elapsed().as_secs(), Ordering::Relaxed);
                flight[w].0.store(ix, Ordering::Relaxed);
                let o = run_vector(v, g, &conc, &tables);
                flight[w].0.store(usize::MAX, Ordering::Relaxed);
                let act = v["act"].as_str().unwrap_or("?").to_string();
                let e = local.entry(act).or_insert([0; 4]);
                e[0] += 1;
                e[2] += o.extra;
                if v["expect"]["res"].as_str().map(|r| r == "Ok" || r == "Some" || r == "Valid").unwrap_or(false) {
                    e[3] += 1;
                }
                for n in &o.notes {
                    let key = if n.starts_with("error variant") { "error-variant-differs".to_string() } else { n.clone() };
                    *lnotes.entry(key).or_insert(0) += 1;
                }
                if !o.ok {
                    e[1] += 1;
                    // keep at most max_fail records per kind of failure (act, reason, predicted outcome, scheme), so that a
                    // frequent (possibly known) kind never crowds out a rare one
                    let bucket = format!("{}|{}|{}|{}", v["act"].as_str().unwrap_or(""), o.why, v["expect"], v.get("scheme").or_else(|| v.get("ct").and_then(|c| c.get("scheme0"))).unwrap_or(&Value::Null));
                    let mut f = fails.lock().unwrap();
                    let mut b = buckets.lock().unwrap();
                    let cnt = b.entry(bucket).or_insert(0usize);
                    if *cnt < max_fail && f.len() < 20 * max_fail {
                        *cnt += 1;
                        f.push(json!({"vector": v, "group": g, "atom_len": p, "seed": seed, "alphabet": alphabet, "observed": o.obs, "why": o.why}));
                    }
                }
            }
            let mut s = stats.lock().unwrap();
            for (k, v) in local {
                let e = s.entry(k).or_insert([0; 4]);
                for i in 0..4 {
                    e[i] += v[i];
                }
            }
            let mut nn = notes.lock().unwrap();
            for (k, v) in lnotes {
                *nn.entry(k).or_insert(0) += v;
            }
        }).unwrap());
    }
    for h in hs {
        h.join().unwrap();
    }
    let stats = stats.lock().unwrap();
    let fails = fails.lock().unwrap();
    let total: u64 = stats.values().map(|v| v[0]).sum();
    let nfail: u64 = stats.values().map(|v| v[1]).sum();
    let extra: u64 = stats.values().map(|v| v[2]).sum();
    let per_act: BTreeMap<String, Value> = stats
        .iter()
        .map(|(k, v)| (k.clone(), json!({"executed": v[0], "failed": v[1], "derived_executions": v[2], "expect_accept": v[3]})))
        .collect();
    let summary = json!({
        "vectors": vectors.len(), "executions": total, "derived_executions": extra, "failed": nfail,
        "groups": groups, "profiles": profiles, "seed": seed, "per_act": per_act,
        "notes": *notes.lock().unwrap(), "failures": *fails,
    });
    let mut out = std::fs::File::create(out_path).expect("create out");
    writeln!(out, "{}", serde_json::to_string_pretty(&summary).unwrap()).unwrap();
    println!("replay: {} vectors, {} executions (+{} derived), {} failed", vectors.len(), total, extra, nfail);
    if nfail > 0 {
        1
    } else {
        0
    }
}

#[cfg(not(feature = "hooks"))]
fn rng_cmd(_args: &[String]) -> i32 {
    eprintln!("built without hooks");
    2
}

fn corpus_cmd(args: &[String], check: bool) -> i32 {
    let tables = Tables::load(arg(args, "--tables").expect("--tables"));
    let out_path = arg(args, "--out").expect("--out");
    let evs: Vec<Value> = if check {
        corpus::check(arg(args, "--in").expect("--in"), &tables)
    } else {
        let mut v = vec![];
        corpus::generate::<Bls12381G1Impl>("G1", &tables, &mut v);
        corpus::generate::<Bls12381G2Impl>("G2", &tables, &mut v);
        v
    };
    let mut out = std::fs::File::create(out_path).expect("create out");
    for e in evs.iter() {
        writeln!(out, "{}", serde_json::to_string(e).unwrap()).unwrap();
    }
    println!("corpus: {} lines", evs.len());
    0
}

#[cfg(feature = "hooks")]
fn rng_cmd(args: &[String]) -> i32 {
    let out_path = arg(args, "--out").expect("--out");
    let n: usize = arg(args, "--events").unwrap_or("64").parse().unwrap();
    let threads: usize = arg(args, "--threads").unwrap_or("4").parse().unwrap();
    let proc_id: u64 = arg(args, "--proc").unwrap_or("0").parse().unwrap();
    let mut all = rngdrv::drive::<Bls12381G1Impl>("G1", proc_id, threads, n);
    all.extend(rngdrv::drive::<Bls12381G2Impl>("G2", proc_id, threads, n));
    let mut out = std::fs::File::create(out_path).expect("create out");
    for e in all.iter() {
        writeln!(out, "{}", serde_json::to_string(e).unwrap()).unwrap();
    }
    // volume run: fingerprints only, as raw 16-byte records next to the trace (merged across processes by the caller)
    let bulk: usize = arg(args, "--bulk").unwrap_or("0").parse().unwrap();
    if bulk > 0 {
        let fps = rngdrv::bulk_fingerprints(threads, bulk);
        let mut f = std::fs::File::create(format!("{out_path}.fps")).expect("create fps");
        for fp in &fps {
            f.write_all(fp).unwrap();
        }
        println!("rng: {} bulk fingerprints", fps.len());
    }
    println!("rng: {} events", all.len());
    0
}

fn record_cmd(args: &[String]) -> i32 {
    let driver = arg(args, "--driver").expect("--driver");
    if driver == "rng" {
        return rng_cmd(args);
    }
    let out_path = arg(args, "--out").expect("--out");
    let seed: u64 = arg(args, "--seed").unwrap_or("0").parse().unwrap();
    let events: usize = arg(args, "--events").unwrap_or("500").parse().unwrap();
    let mix = arg(args, "--mix").unwrap_or("all");
    let groups: Vec<String> = arg(args, "--groups").unwrap_or("G1,G2").split(',').map(|s| s.to_string()).collect();
    // a call that never returns: the watchdog writes the input in flight as a `Hang` event (no action of any trace
    // specification matches it, so the trace is rejected at that line) and ends the recording
    {
        let out_path = out_path.to_string();
        let limit: u64 = arg(args, "--hang-limit").unwrap_or("240").parse().unwrap();
        std::thread::spawn(move || loop {
            std::thread::sleep(std::time::Duration::from_millis(500));
            if let Some(d) = conc::watch::stuck(limit) {
                if let Ok(mut out) = std::fs::File::create(&out_path) {
                    let _ = writeln!(out, "{}", json!({"ev": "Hang", "seq": 1, "input": d, "limit_s": limit}));
                }
                println!("record: a call did not return within {limit} s: {}", &d[..d.len().min(200)]);
                std::process::exit(0);
            }
        });
    }
    let mut all = vec![];
    for g in &groups {
        let mut log = record::Log::new(g);
        match (driver, g.as_str()) {
            ("signet", "G1") => record::drive_signet::<Bls12381G1Impl>(&mut log, seed, events, mix),
            ("signet", "G2") => record::drive_signet::<Bls12381G2Impl>(&mut log, seed.wrapping_add(1), events, mix),
            ("proto", "G1") => record::drive_proto::<Bls12381G1Impl>(&mut log, seed, events),
            ("proto", "G2") => record::drive_proto::<Bls12381G2Impl>(&mut log, seed.wrapping_add(1), events),
            ("constants", "G1") => record::drive_constants::<Bls12381G1Impl>(&mut log),
            ("constants", "G2") => record::drive_constants::<Bls12381G2Impl>(&mut log),
            ("fuzz", "G1") => codecs::drive_fuzz::<Bls12381G1Impl>(&mut log, seed, events, &Tables::load(arg(args, "--tables").expect("--tables")), "G1"),
            ("fuzz", "G2") => codecs::drive_fuzz::<Bls12381G2Impl>(&mut log, seed.wrapping_add(1), events, &Tables::load(arg(args, "--tables").expect("--tables")), "G2"),
            (d, g) => {
                eprintln!("unknown driver/group {d}/{g}");
                return 2;
            }
        }
        all.extend(log.events);
    }
    let mut out = std::fs::File::create(out_path).expect("create out");
    for (i, e) in all.iter_mut().enumerate() {
        e["seq"] = json!(i + 1);
        writeln!(out, "{}", serde_json::to_string(e).unwrap()).unwrap();
    }
    println!("record: {} events", all.len());
    0
}

fn main() {
    let args: Vec<String> = std::env::args().collect();
    let code = match args.get(1).map(|s| s.as_str()) {
        Some("replay") => replay(&args[2..]),
        Some("record") => record_cmd(&args[2..]),
        Some("corpus") => corpus_cmd(&args[2..], false),
        Some("corpus-check") => corpus_cmd(&args[2..], true),
        Some("witness-search") => {
            match witness::search(&args[2], &args[3]) {
                Some(w) => { println!("{}", w); 0 }
                None => { eprintln!("no witness found"); 1 }
            }
        }
        Some("witness") => {
            // stdin: one witness JSON per line; stdout: one of reproduces / gone / error per line
            let mut code = 0;
            for line in std::io::stdin().lock().lines() {
                let line = line.unwrap();
                if line.trim().is_empty() { continue; }
                let w: Value = serde_json::from_str(&line).expect("witness json");
                let r = catch_unwind(AssertUnwindSafe(|| witness::reproduce(&w)));
                match r {
                    Ok(Ok(true)) => println!("reproduces"),
                    Ok(Ok(false)) => println!("gone"),
                    Ok(Err(e)) => { println!("error {e}"); code = 2; }
                    Err(_) => println!("abort"),
                }
            }
            code
        }
        _ => {
            eprintln!("usage: bh replay --vectors F --tables T --out O [--groups G1,G2] [--profiles 5,129] [--seed N]");
            2
        }
    };
    std::process::exit(code);
}
