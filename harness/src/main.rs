fn main() { println!("hello"); }
