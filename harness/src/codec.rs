//! Encoding round trips (C01 part; the full Codec replay lives in codecs.rs)
use blsful::*;

/// carry (sk, pk, sig) through every encoding the library offers and verify again.
/// Returns the number of executions performed.
pub fn carry_through<C>(sk: &SecretKey<C>, pk: &PublicKey<C>, sig: &Signature<C>, msg: &[u8]) -> Result<u64, String>
where
    C: BlsSignatureImpl + PartialEq + Eq + std::fmt::Debug,
{
    let mut n = 0u64;
    // byte conversions
    let sk2 = SecretKey::<C>::try_from(Vec::<u8>::from(sk).as_slice()).map_err(|e| format!("sk bytes: {e}"))?;
    let pk2 = PublicKey::<C>::try_from(Vec::<u8>::from(pk).as_slice()).map_err(|e| format!("pk bytes: {e}"))?;
    let sig2 = Signature::<C>::try_from(Vec::<u8>::from(sig).as_slice()).map_err(|e| format!("sig bytes: {e}"))?;
    if &sk2 != sk || &pk2 != pk || &sig2 != sig {
        return Err("byte conversion changed a value".into());
    }
    sig2.verify(&sk2.public_key(), msg).map_err(|e| format!("verify after byte conversion: {e}"))?;
    n += 1;
    // serde_bare
    let sk3: SecretKey<C> = serde_bare::from_slice(&serde_bare::to_vec(sk).map_err(|e| e.to_string())?).map_err(|e| format!("sk bare: {e}"))?;
    let pk3: PublicKey<C> = serde_bare::from_slice(&serde_bare::to_vec(pk).map_err(|e| e.to_string())?).map_err(|e| format!("pk bare: {e}"))?;
    let sig3: Signature<C> = serde_bare::from_slice(&serde_bare::to_vec(sig).map_err(|e| e.to_string())?).map_err(|e| format!("sig bare: {e}"))?;
    if &sk3 != sk || &pk3 != pk || &sig3 != sig {
        return Err("serde_bare changed a value".into());
    }
    sig3.verify(&pk3, msg).map_err(|e| format!("verify after serde_bare: {e}"))?;
    n += 1;
    // serde_json
    let sk4: SecretKey<C> = serde_json::from_str(&serde_json::to_string(sk).map_err(|e| e.to_string())?).map_err(|e| format!("sk json: {e}"))?;
    let pk4: PublicKey<C> = serde_json::from_str(&serde_json::to_string(pk).map_err(|e| e.to_string())?).map_err(|e| format!("pk json: {e}"))?;
    let sig4: Signature<C> = serde_json::from_str(&serde_json::to_string(sig).map_err(|e| e.to_string())?).map_err(|e| format!("sig json: {e}"))?;
    if &sk4 != sk || &pk4 != pk || &sig4 != sig {
        return Err("serde_json changed a value".into());
    }
    sig4.verify(&pk4, msg).map_err(|e| format!("verify after serde_json: {e}"))?;
    n += 1;
    // the other front ends of the human-readable form: document model, reader, byte slice (owned text)
    let sk5: SecretKey<C> = serde_json::from_value(serde_json::to_value(sk).map_err(|e| e.to_string())?).map_err(|e| format!("sk json via the document model: {e}"))?;
    let pk5: PublicKey<C> = serde_json::from_reader(std::io::Cursor::new(serde_json::to_vec(pk).map_err(|e| e.to_string())?)).map_err(|e| format!("pk json via a reader: {e}"))?;
    let sig5: Signature<C> = serde_json::from_value(serde_json::to_value(sig).map_err(|e| e.to_string())?).map_err(|e| format!("sig json via the document model: {e}"))?;
    let sig6: Signature<C> = serde_json::from_reader(std::io::Cursor::new(serde_json::to_vec(sig).map_err(|e| e.to_string())?)).map_err(|e| format!("sig json via a reader: {e}"))?;
    if &sk5 != sk || &pk5 != pk || &sig5 != sig || &sig6 != sig {
        return Err("serde_json (document model / reader) changed a value".into());
    }
    sig5.verify(&pk5, msg).map_err(|e| format!("verify after serde_json (document model / reader): {e}"))?;
    n += 1;
    // be / le scalar codecs
    let be = sk.to_be_bytes();
    let le = sk.to_le_bytes();
    let mut rev = le;
    rev.reverse();
    if be != rev {
        return Err("to_be_bytes and to_le_bytes are not mirror images".into());
    }
    let a: Option<SecretKey<C>> = SecretKey::<C>::from_be_bytes(&be).into();
    let b: Option<SecretKey<C>> = SecretKey::<C>::from_le_bytes(&le).into();
    if a.as_ref() != Some(sk) || b.as_ref() != Some(sk) {
        return Err("from_be/le_bytes does not invert to_be/le_bytes".into());
    }
    n += 1;
    // keys at the arithmetic edges of the byte codecs: a single 0x80 byte at every position (the byte-OR of the
    // encoding is 0x80), 0x7f / 0xff patterns, one, r - 1
    {
        use blsful::inner_types::{Field, PrimeField};
        type S<C> = <<C as Pairing>::PublicKey as blsful::inner_types::Group>::Scalar;
        let mut edges: Vec<S<C>> = vec![S::<C>::ONE, -S::<C>::ONE, S::<C>::from(0x7fu64), S::<C>::from(0xffu64), S::<C>::from(0x8080u64), S::<C>::from(0x80_0000_0080u64)];
        let mut p = S::<C>::from(0x80u64);
        let b256 = S::<C>::from(256u64);
        for _ in 0..31 {
            edges.push(p);
            p *= b256;
        }
        let _ = S::<C>::NUM_BITS;
        for e in edges {
            let k = SecretKey::<C>(e);
            let (be, le) = (k.to_be_bytes(), k.to_le_bytes());
            let a: Option<SecretKey<C>> = SecretKey::<C>::from_be_bytes(&be).into();
            let b: Option<SecretKey<C>> = SecretKey::<C>::from_le_bytes(&le).into();
            let c = SecretKey::<C>::try_from(&be[..]).ok();
            if a.as_ref() != Some(&k) || b.as_ref() != Some(&k) || c.as_ref() != Some(&k) {
                return Err(format!("edge key {} does not survive its byte form", hex::encode(be)));
            }
        }
        n += 1;
    }
    // fixed-size array conversions, by reference and by value: the big-endian form, and what the decoders read
    let by_ref = <[u8; 32]>::from(sk);
    let owned: SecretKey<C> = SecretKey(sk.0); // an owned copy (derive(Clone) would need C: Clone and fall back to cloning the reference)
    let by_val = <[u8; 32]>::from(owned);
    if by_ref != be || by_val != be {
        return Err("the [u8; 32] conversions of a secret key (by reference / by value) differ from to_be_bytes".into());
    }
    let c = SecretKey::<C>::try_from(&by_val[..]).map_err(|e| format!("sk from its by-value array: {e}"))?;
    if &c != sk {
        return Err("a secret key moved into an array and decoded again is another key".into());
    }
    n += 1;
    Ok(n)
}
