//! Concrete failing inputs of recorded known findings: re-executed on every run, so a finding is
//! reported only while it still reproduces (and disappears from the output once it is fixed).
use crate::conc::*;
use crate::signet::*;
use blsful::*;
use serde_json::{json, Value};

fn sc_wrongkey<C: BlsSignatureImpl + Clone>(w: &Value) -> Result<bool, String> {
    let ct = SignCryptCiphertext::<C>::try_from(hex::decode(gets(w, "ct_hex")).map_err(|e| e.to_string())?.as_slice())
        .map_err(|e| format!("witness ciphertext no longer decodes: {e}"))?;
    let msg = hex::decode(gets(w, "msg_hex")).map_err(|e| e.to_string())?;
    if !bool::from(ct.is_valid()) {
        return Ok(false);
    }
    let sk = SecretKey::<C>(sc::<C>(geti(w, "k2")));
    let r: Option<Vec<u8>> = ct.decrypt(&sk).into();
    Ok(r.as_deref() == Some(&msg[..]))
}

/// search for a witness: seal `msg` for key k until decryption under k2 returns it
fn sc_wrongkey_search<C: BlsSignatureImpl + Clone>(k: i64, k2: i64, msg: &[u8], tries: usize) -> Option<Value> {
    let pk = SecretKey::<C>(sc::<C>(k)).public_key();
    let sk2 = SecretKey::<C>(sc::<C>(k2));
    for _ in 0..tries {
        let ct = pk.sign_crypt(SignatureSchemes::Basic, msg);
        let r: Option<Vec<u8>> = ct.decrypt(&sk2).into();
        if r.as_deref() == Some(msg) {
            return Some(json!({"kind": "signcrypt_wrongkey", "k": k, "k2": k2, "msg_hex": hex::encode(msg), "ct_hex": hex::encode(Vec::<u8>::from(&ct))}));
        }
    }
    None
}

pub fn reproduce(w: &Value) -> Result<bool, String> {
    let g = gets(w, "group");
    match (gets(w, "kind"), g) {
        ("signcrypt_wrongkey", "G1") => sc_wrongkey::<Bls12381G1Impl>(w),
        ("signcrypt_wrongkey", "G2") => sc_wrongkey::<Bls12381G2Impl>(w),
        (k, g) => Err(format!("unknown witness kind {k}/{g}")),
    }
}

pub fn search(kind: &str, group: &str) -> Option<Value> {
    let mut w = match (kind, group) {
        ("signcrypt_wrongkey", "G1") => sc_wrongkey_search::<Bls12381G1Impl>(1, 2, b"", 100000),
        ("signcrypt_wrongkey", "G2") => sc_wrongkey_search::<Bls12381G2Impl>(1, 2, b"", 100000),
        _ => None,
    }?;
    w["group"] = json!(group);
    Some(w)
}
