//! C20 driver: every randomized entry point, N calls with identical arguments, T threads; one
//! event per call with hashes of the observables that are injective in the ephemeral values, plus
//! the fingerprints of all generators get_crypto_rng handed out (hook, --cfg blsful_verif).
use crate::signet::*;
use blsful::inner_types::{Group, GroupEncoding};
use blsful::*;
use serde_json::{json, Value};
use sha2::{Digest, Sha256};

fn h(parts: &[&[u8]]) -> String {
    let mut d = Sha256::new();
    for p in parts {
        d.update((p.len() as u64).to_le_bytes());
        d.update(p);
    }
    hex::encode(&d.finalize()[..12])
}

pub const ENTRIES: &[&str] = &["keygen", "keygen_facade", "keygen_enum", "split", "signcrypt", "timelock", "elgamal", "elgamal_proof", "pok_commit", "pok_ts", "challenge"];

fn one_call<C: BlsSignatureImpl + Clone>(entry: &str, msg: &[u8], sk: &SecretKey<C>, group: &str) -> Vec<String> {
    let pk = sk.public_key();
    let g = group.as_bytes();
    match entry {
        "keygen" => vec![h(&[b"sk", g, &SecretKey::<C>::new().to_be_bytes()])],
        "keygen_facade" => vec![h(&[b"sk", g, &BlsSignature::<C>::new_secret_key().to_be_bytes()])],
        "keygen_enum" => vec![h(&[b"sk", g, &SecretKeyEnum::new(if group == "G1" { Bls12381::G1 } else { Bls12381::G2 }).to_be_bytes()[1..]])],
        "split" => {
            let sh = sk.split(2, 3).expect("split");
            let all: Vec<u8> = sh.iter().flat_map(|s| Vec::<u8>::from(s)).collect();
            vec![h(&[b"shares", g, &all]), h(&[b"share1", g, &Vec::<u8>::from(&sh[0])])]
        }
        "signcrypt" => {
            let ct = pk.sign_crypt(SignatureSchemes::Basic, msg);
            vec![h(&[b"sc-u", g, ct.u.to_bytes().as_ref()]), h(&[b"sc-v", g, &ct.v])]
        }
        "timelock" => {
            let ct = pk.encrypt_time_lock(SignatureSchemes::Basic, msg, b"id").expect("seal");
            vec![h(&[b"tl-u", g, ct.u.to_bytes().as_ref()]), h(&[b"tl-v", g, &ct.v])]
        }
        "elgamal" => {
            let ct = pk.encrypt_key_el_gamal(sk).expect("encrypt");
            vec![h(&[b"eg-c1", g, ct.c1.to_bytes().as_ref()])]
        }
        "elgamal_proof" => {
            let p = pk.encrypt_key_el_gamal_with_proof(sk).expect("proof");
            // r1 = -ch*c1 + bp*P is the commitment the prover drew
            let r1 = p.ciphertext.c1 * (-p.challenge) + <C as Pairing>::PublicKey::generator() * p.blinder_proof;
            vec![h(&[b"egp-c1", g, p.ciphertext.c1.to_bytes().as_ref()]), h(&[b"egp-r1", g, r1.to_bytes().as_ref()])]
        }
        "pok_commit" => {
            let sig = sk.sign(SignatureSchemes::Basic, msg).unwrap();
            let (c, x) = ProofCommitment::<C>::generate(msg, sig).expect("commit");
            vec![h(&[b"pok-u", g, &Vec::<u8>::from(&c)]), h(&[b"pok-x", g, &x.to_be_bytes()])]
        }
        "pok_ts" => {
            let sig = sk.sign(SignatureSchemes::Basic, msg).unwrap();
            let p = ProofOfKnowledgeTimestamp::<C>::generate(msg, sig).expect("generate");
            let b = Vec::<u8>::from(&p.proof);
            vec![h(&[b"pokts-u", g, &b[..b.len() / 2 + 1]])]
        }
        _ => vec![h(&[b"challenge", g, &ProofCommitmentChallenge::<C>::new().to_be_bytes()])],
    }
}

pub fn drive<C: BlsSignatureImpl + Clone + Send + Sync + 'static>(group: &'static str, proc_id: u64, threads: usize, n: usize) -> Vec<Value> {
    blsful::verif_hooks::rng_take();
    blsful::verif_hooks::rng_observe(true);
    let sk = SecretKey::<C>(sc::<C>(7));
    let mut hs = vec![];
    for t in 0..threads {
        let sk = sk.clone();
        hs.push(std::thread::spawn(move || {
            let mut evs = vec![];
            let mut seq = 0u64;
            for i in 0..n {
                for entry in ENTRIES {
                    // identical arguments on every call; the message-length class cycles through the short ones
                    let msg: &[u8] = [&b""[..], &b"x"[..], &b"xy"[..], &b"fifteen bytes.."[..]][i % 4];
                    let eph = one_call::<C>(entry, msg, &sk, group);
                    seq += 1;
                    evs.push(json!({"ev": "Call", "proc": proc_id, "thread": t, "tseq": seq, "entry": entry, "group": group, "msglen": msg.len(), "eph": eph}));
                }
            }
            evs
        }));
    }
    let mut all = vec![];
    for hnd in hs {
        all.extend(hnd.join().unwrap());
    }
    blsful::verif_hooks::rng_observe(false);
    let gens = blsful::verif_hooks::rng_take();
    let calls = all.len();
    for (_tid, fp) in gens.iter() {
        all.push(json!({"ev": "Gen", "proc": proc_id, "group": group, "fp": hex::encode(fp)}));
    }
    all.push(json!({"ev": "Summary", "proc": proc_id, "group": group, "calls": calls, "gens": gens.len()}));
    all
}

/// Volume: `per_thread` calls of the cheapest randomized entry point on each of `threads` threads; only the
/// generator fingerprints are kept (hook).  A seed space that is too small (a 32-bit seed) shows as repeats here
/// long before it shows in the per-entry-point rounds.
pub fn bulk_fingerprints(threads: usize, per_thread: usize) -> Vec<[u8; 16]> {
    blsful::verif_hooks::rng_take();
    blsful::verif_hooks::rng_observe(true);
    let mut hs = vec![];
    for _ in 0..threads {
        hs.push(std::thread::spawn(move || {
            let mut acc = 0u8;
            for _ in 0..per_thread {
                acc ^= ProofCommitmentChallenge::<Bls12381G1Impl>::new().to_be_bytes()[31];
            }
            acc
        }));
    }
    for h in hs {
        let _ = h.join();
    }
    blsful::verif_hooks::rng_observe(false);
    blsful::verif_hooks::rng_take().into_iter().map(|(_, fp)| fp).collect()
}
