SPECIFICATION Spec
CONSTANTS
  Keys <- KeysA
  MsgRs <- MsgsAT
  Modes <- ModesMulti
  Depth = 1
  AggN = 4
  Emit = TRUE
INVARIANTS TypeOK Complete Exact NoIdentityAccepted Separated AggExact AggRefusal MultiExact EmitVec
CHECK_DEADLOCK FALSE
