------------------------------ MODULE MC_Pok ------------------------------
EXTENDS Pok
A(c) == [c |-> c, k |-> 0]
KeysQ == {1, -1}
KeysT == {1, 2, -1}
MsgsQ == {<<A("a")>>, <<>>}
MsgsT == {<<A("a")>>, <<>>, <<A("a"), A("b")>>}
\* 2000000000 stands for the largest timeout (u64::MAX): the harness maps it, the model only needs it to exceed every delay
TausQ == {-1, 0, 5, 1000, 2000000000}
TausT == {-1, 0, 1, 5, 1000, 60000, 2000000000}
NoDev == {}
DevD6 == {"PokAugPlainMsg"}
=============================================================================
