------------------------------- MODULE Tags -------------------------------
(***************************************************************************)
(* The constant tables of the system, written from the IETF draft          *)
(* (draft-irtf-cfrg-bls-signature, section 4: ciphersuite IDs) and from    *)
(* the documented constructions of blsful.  "G1" is the group assignment   *)
(* with signatures in G1 / keys in G2 (minimal-signature-size), "G2" the   *)
(* swapped one (minimal-pubkey-size).                                      *)
(*                                                                         *)
(* The harness never hard-codes any of these strings: TLC exports the      *)
(* table (MC_Tags) and both the replay interpreter and the independent     *)
(* evaluator read it, so the spec is the single source of truth.           *)
(***************************************************************************)
EXTENDS Naturals, Sequences, FiniteSets, TLC

Groups  == {"G1", "G2"}
Schemes == {"Basic", "Aug", "Pop"}

\* signature-scheme name -> tag name
TagOf(s) == CASE s = "Basic" -> "NUL" [] s = "Aug" -> "AUG" [] s = "Pop" -> "POP"

\* scheme tag bytes on the wire / JSON names
SchemeByte(s) == CASE s = "Basic" -> 0 [] s = "Aug" -> 1 [] s = "Pop" -> 2
SchemeJson(s) == CASE s = "Basic" -> "Basic" [] s = "Aug" -> "MessageAugmentation" [] s = "Pop" -> "ProofOfPossession"
CurveByte(g)  == CASE g = "G1" -> 1 [] g = "G2" -> 2
CurveJson(g)  == CASE g = "G1" -> "BLS12381G1" [] g = "G2" -> "BLS12381G2"

TagTable ==
  [ G1 |-> [ NUL      |-> "BLS_SIG_BLS12381G1_XMD:SHA-256_SSWU_RO_NUL_",
             AUG      |-> "BLS_SIG_BLS12381G1_XMD:SHA-256_SSWU_RO_AUG_",
             POP      |-> "BLS_SIG_BLS12381G1_XMD:SHA-256_SSWU_RO_POP_",
             POPPROOF |-> "BLS_POP_BLS12381G1_XMD:SHA-256_SSWU_RO_POP_",
             ENC      |-> "BLS_ELGAMAL_BLS12381G2_XMD:SHA-256_SSWU_RO_NUL_" ],
    G2 |-> [ NUL      |-> "BLS_SIG_BLS12381G2_XMD:SHA-256_SSWU_RO_NUL_",
             AUG      |-> "BLS_SIG_BLS12381G2_XMD:SHA-256_SSWU_RO_AUG_",
             POP      |-> "BLS_SIG_BLS12381G2_XMD:SHA-256_SSWU_RO_POP_",
             POPPROOF |-> "BLS_POP_BLS12381G2_XMD:SHA-256_SSWU_RO_POP_",
             ENC      |-> "BLS_ELGAMAL_BLS12381G1_XMD:SHA-256_SSWU_RO_NUL_" ] ]

TagNames == {"NUL", "AUG", "POP", "POPPROOF", "ENC"}

\* HKDF salts (hash_to_scalar = KeyGen-style HKDF with these salts)
SaltTable ==
  [ KEYGEN    |-> "BLS-SIG-KEYGEN-SALT-",
    POK       |-> "BLS_POK__BLS12381_XOF:HKDF-SHA2-256_",
    SIGNCRYPT |-> "SIGNCRYPT_BLS12381_XOF:HKDF-SHA2-256_",
    TIMELOCK  |-> "TIMELOCK_BLS12381_XOF:HKDF-SHA2-256_",
    ELGAMAL   |-> "ELGAMAL_BLS12381_XOF:HKDF-SHA2-256_" ]
SaltNames == {"KEYGEN", "POK", "SIGNCRYPT", "TIMELOCK", "ELGAMAL"}

\* ElGamal proof transcript (merlin): protocol label, then (label, what) in order
MerlinProto  == "ElGamalProof"
MerlinLabels == << <<"dst", "SALT:ELGAMAL">>, <<"base point", "P">>, <<"pk", "pk">>,
                   <<"generator", "Hm">>, <<"c1", "c1">>, <<"c2", "c2">>,
                   <<"r1", "r1">>, <<"r2", "r2">> >>
MerlinChallenge == "challenge"

\* HKDF KeyGen parameters (draft section 2.3): IKM || I2OSP(0,1); info = I2OSP(L,2), L = 48
KeyGenL == 48

AllStrings == {TagTable[g][n] : g \in Groups, n \in TagNames} \cup {SaltTable[n] : n \in SaltNames}

\* C05: every tag / salt the library uses is different from every other one
Distinct == Cardinality(AllStrings) = Cardinality(Groups) * Cardinality(TagNames) + Cardinality(SaltNames)

\* C05: the signature and PoP tags are the strings fixed by the IETF draft:
\* "BLS_SIG_" / "BLS_POP_" || "BLS12381G1"/"BLS12381G2" || "_XMD:SHA-256_SSWU_RO_" || "NUL_"/"AUG_"/"POP_"
IetfId(pfx, g, sfx) == pfx \o "BLS12381" \o g \o "_XMD:SHA-256_SSWU_RO_" \o sfx
IetfConform == \A g \in Groups :
   /\ TagTable[g].NUL      = IetfId("BLS_SIG_", g, "NUL_")
   /\ TagTable[g].AUG      = IetfId("BLS_SIG_", g, "AUG_")
   /\ TagTable[g].POP      = IetfId("BLS_SIG_", g, "POP_")
   /\ TagTable[g].POPPROOF = IetfId("BLS_POP_", g, "POP_")
=============================================================================
