SPECIFICATION Spec
CONSTANTS
  Keys <- KeysT
  MsgRs <- MsgsT
  Modes <- ModesSingle
  Depth = 1
  AggN = 2
  Emit = TRUE
INVARIANTS TypeOK Complete Exact NoIdentityAccepted Separated AggExact AggRefusal MultiExact EmitVec
CHECK_DEADLOCK FALSE
