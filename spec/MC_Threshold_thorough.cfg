SPECIFICATION Spec
CONSTANTS
  Keys <- KeysT
  MaxN = 6
  BadParams <- BadQ
  BigTN <- BigT
  BaseLen = 3
  MsgRs <- Msgs2
  Emit = TRUE
INVARIANTS TypeOK Recombine ErrorClasses ParamRange PartialExact AugRefused EmitVec
CHECK_DEADLOCK FALSE
