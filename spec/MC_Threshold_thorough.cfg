SPECIFICATION Spec
CONSTANTS
  Keys <- KeysQ
  MaxN = 5
  BadParams <- BadQ
  BigTN <- BigT
  BaseLen = 3
  MsgRs <- Msgs2
  Emit = TRUE
INVARIANTS TypeOK Recombine ErrorClasses DealsIndependent ParamRange PartialExact AugRefused EmitVec
CHECK_DEADLOCK FALSE
