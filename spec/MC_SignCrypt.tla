--------------------------- MODULE MC_SignCrypt ---------------------------
EXTENDS SignCrypt
KeysQ == {1, -1}
KeysT == {1, 2, -1}
\* 166 and 334: the framed payload (2-byte prefix + message) is exactly one / two SHAKE128 blocks of 168 bytes
LensQ == {0, 1, 5, 31, 32, 127, 128, 166, 334, 65536}
LensT == LensQ \cup {30, 33, 40, 62, 63, 100, 129, 140, 165, 167, 502, 16383, 16384, 65535, 65536}
ModesAll == {"tamper", "threshold"}
BigQ == {<<2, 255>>, <<3, 16>>, <<128, 255>>, <<255, 255>>}
NoDev == {}
DevD5 == {"ShareVerifyBasicTagOnly"}
=============================================================================
