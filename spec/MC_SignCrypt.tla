--------------------------- MODULE MC_SignCrypt ---------------------------
EXTENDS SignCrypt
KeysQ == {1, -1}
KeysT == {1, 2, -1}
LensQ == {0, 1, 5, 31, 32, 33, 127, 128, 129, 65536}
LensT == LensQ \cup {30, 40, 100, 140, 16383, 16384, 65535, 65536}
ModesAll == {"tamper", "threshold"}
NoDev == {}
DevD5 == {"ShareVerifyBasicTagOnly"}
=============================================================================
