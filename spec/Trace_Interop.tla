--------------------------- MODULE Trace_Interop ---------------------------
(***************************************************************************)
(* Interoperability traces.  Serves C18 and C19.                           *)
(*                                                                         *)
(* Two "nodes" run instances of the other modules that differ in one       *)
(* dimension: version (pinned release / current tree), implementation      *)
(* (library / independent reference), or arithmetic backend (blst / rust). *)
(* One node produces, the artefact is transferred, the other consumes.     *)
(*                                                                         *)
(*  Golden(what, same): an entry of the golden corpus recorded from the    *)
(*     pinned release was replayed into the current tree; `same` says the  *)
(*     current tree decoded it to the same value / re-encoded it to the    *)
(*     same bytes / gave the same verdict or plaintext.                    *)
(*  Det(call, out) on node n: a deterministic operation and the hash of    *)
(*     its output - must agree between nodes (Bind rule on call names).    *)
(*  Cross(kind, producer, consumer, ok): a randomized artefact produced on *)
(*     one node was consumed on the other with the expected result.        *)
(***************************************************************************)
EXTENDS Naturals, Sequences, FiniteSets, TLC, Json, IOUtils, TLCExt

Rec == ndJsonDeserialize(IOEnv.TRACE)
VARIABLES l, det
tvars == <<l, det>>
IsEvent(e) == l <= Len(Rec) /\ Rec[l].ev = e /\ l' = l + 1

TReset == IsEvent("Reset") /\ det' = [x \in {} |-> ""]

\* Consume_current(Transfer(Produce_pinned(x))) = Consume_pinned(x)
TGolden == /\ IsEvent("Golden")
           /\ Rec[l].same = TRUE /\ Rec[l].count > 0
           /\ UNCHANGED det

\* same abstract call => same value on both nodes
TDet == /\ IsEvent("Det")
        /\ LET e == Rec[l] IN
             IF e.call \in DOMAIN det THEN det[e.call] = e.out /\ UNCHANGED det
             ELSE det' = det @@ (e.call :> e.out)

\* verdict / plaintext at the consumer = the one recorded at the producer
TCross == /\ IsEvent("Cross")
          /\ Rec[l].ok = TRUE /\ Rec[l].producer # Rec[l].consumer
          /\ UNCHANGED det

TraceInit == l = 1 /\ det = [x \in {} |-> ""]
TraceNext == TReset \/ TGolden \/ TDet \/ TCross
TraceSpec == TraceInit /\ [][TraceNext]_tvars
TraceAccepted ==
  LET d == TLCGet("stats").diameter IN
    IF d - 1 = Len(Rec) THEN TRUE
    ELSE Print(<<"TRACE-REJECTED at event", d, IF d <= Len(Rec) THEN ToJson(Rec[d]) ELSE "-">>, FALSE)
=============================================================================
