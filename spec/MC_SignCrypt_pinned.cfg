SPECIFICATION Spec
CONSTANTS
  Keys <- KeysQ
  Lens <- LensQ
  Depth = 1
  MaxN = 3
  BigTN <- BigQ
  Modes <- ModesAll
  Deviations <- DevD5
  Emit = TRUE
INVARIANTS TypeOK RoundTrip TamperRejected WrongKey CraftRefused NoIdentity ShareExact ShareLinear ShareNoIdentity ThresholdOpen EmitVec
CHECK_DEADLOCK FALSE
