---------------------------- MODULE Trace_SigNet ----------------------------
(***************************************************************************)
(* implementation -> spec: validates a trace recorded from the real        *)
(* library (harness `record --driver signet`) against the operators of     *)
(* SigNet.  A trace is accepted iff, for every event,                      *)
(*   - the logged verdict is the one the specification computes, and       *)
(*   - the equality pattern of concrete bytes (value-ids) is isomorphic to *)
(*     the equality pattern of abstract terms (the Bind rule):             *)
(*     same term <=> same id.  This is what checks determinism, aggregate  *)
(*     = plain sum, distinct tags => distinct signatures, and so on.       *)
(***************************************************************************)
EXTENDS SigOps, Json, IOUtils, TLCExt

Rec == ndJsonDeserialize(IOEnv.TRACE)

VARIABLES l, val
tvars == <<l, val>>

V(kind, scheme, den, p) == [kind |-> kind, scheme |-> scheme, den |-> den, p |-> p]
NoVal == [x \in {} |-> V("", "", GId, PZero)]

IsEvent(e) == l <= Len(Rec) /\ Rec[l].ev = e /\ l' = l + 1

Bind(id, v) == IF id \in DOMAIN val THEN val[id] = v /\ UNCHANGED val
               ELSE (\A j \in DOMAIN val : val[j] # v) /\ val' = val @@ (id :> v)

Known(id, kind) == id \in DOMAIN val /\ val[id].kind = kind

\* trace message chunks: [c |-> "a", s |-> atom name, id |-> ""] or [c |-> "pk", s |-> "", id |-> value-id of a pk]
TChunk(ch) == IF ch.c = "pk" THEN EncK(val[ch.id].den) ELSE Atom(ch.s)
TMsg(m) == [i \in 1..Len(m) |-> TChunk(m[i])]

TReset == IsEvent("Reset") /\ val' = NoVal

TSk == /\ IsEvent("Sk")
       /\ LET e == Rec[l] IN
            Bind(e.out, V("sk", "", GId, IF e.kind = "int" THEN PConst(e.k) ELSE PAtom(e.atom)))

TPk == /\ IsEvent("Pk")
       /\ LET e == Rec[l] IN
            /\ Known(e.sk, "sk")
            /\ Bind(e.out, V("pk", "", GScale(val[e.sk].p, GenK), PZero))

TSign == /\ IsEvent("Sign")
         /\ LET e == Rec[l]
                r == Sign(val[e.sk].p, e.scheme, TMsg(e.msg)) IN
              /\ Known(e.sk, "sk")
              /\ e.res = r.r.t
              /\ IF IsOk(r.r) THEN Bind(e.out, V("sig", e.scheme, r.v, PZero)) ELSE UNCHANGED val

TVerify == /\ IsEvent("Verify")
           /\ LET e == Rec[l]
                  pk == val[e.pk].den   s == val[e.sig]
                  r == Verify(pk, s.scheme, s.den, TMsg(e.msg)) IN
                /\ Known(e.pk, "pk") /\ Known(e.sig, "sig")
                /\ e.res = r.t
                \* the ideal layer agrees on every tuple the implementation was asked about
                /\ IsOk(r) <=> IdealVerify(pk, s.scheme, s.den, TMsg(e.msg))
           /\ UNCHANGED val

TSigOp == /\ IsEvent("SigOp")
          /\ LET e == Rec[l]   a == val[e.of]
                 n == CASE e.op = "Neg"      -> [scheme |-> a.scheme, den |-> GNeg(a.den)]
                        [] e.op = "AddGen"   -> [scheme |-> a.scheme, den |-> GAdd(a.den, GenS)]
                        [] e.op = "Scale"    -> [scheme |-> a.scheme, den |-> GMulInt(2, a.den)]
                        [] e.op = "Relabel"  -> [scheme |-> e.arg, den |-> a.den]
                        [] e.op = "Identity" -> [scheme |-> a.scheme, den |-> GId]
                        [] e.op = "SumSig"   -> [scheme |-> a.scheme, den |-> GAdd(a.den, val[e.arg].den)] IN
               /\ Known(e.of, "sig")
               /\ Bind(e.out, V("sig", n.scheme, n.den, PZero))

TPkOp == /\ IsEvent("PkOp")
         /\ LET e == Rec[l]   a == val[e.of].den
                n == CASE e.op = "Neg"      -> GNeg(a)
                       [] e.op = "AddGen"   -> GAdd(a, GenK)
                       [] e.op = "Identity" -> GId
                       [] e.op = "SumPk"    -> GAdd(a, val[e.arg].den) IN
              /\ Known(e.of, "pk")
              /\ Bind(e.out, V("pk", "", n, PZero))

TPopProve == /\ IsEvent("PopProve")
             /\ LET e == Rec[l]
                    r == PopProve(val[e.sk].p) IN
                  /\ Known(e.sk, "sk")
                  /\ e.res = r.r.t
                  /\ IF IsOk(r.r) THEN Bind(e.out, V("pop", "", r.v, PZero)) ELSE UNCHANGED val

TPopVerify == /\ IsEvent("PopVerify")
              /\ LET e == Rec[l]
                     r == PopVerify(val[e.pk].den, val[e.pop].den) IN
                   /\ Known(e.pk, "pk") /\ Known(e.pop, "pop")
                   /\ e.res = r.t
                   /\ IsOk(r) <=> (~GIsId(val[e.pk].den) /\ ~GIsId(val[e.pop].den) /\ val[e.pop].den = IdealPop(val[e.pk].den))
              /\ UNCHANGED val

TPopAsSig == /\ IsEvent("PopAsSig")
             /\ LET e == Rec[l] IN
                  /\ Known(e.of, "pop")
                  /\ Bind(e.out, V("sig", e.arg, val[e.of].den, PZero))

SigSeq(ids) == [i \in 1..Len(ids) |-> [scheme |-> val[ids[i]].scheme, den |-> val[ids[i]].den]]

TAggregate == /\ IsEvent("Aggregate")
              /\ LET e == Rec[l]
                     r == Aggregate(SigSeq(e.sigs)) IN
                   /\ \A i \in 1..Len(e.sigs) : Known(e.sigs[i], "sig")
                   /\ e.res = r.r.t
                   /\ IF IsOk(r.r) THEN Bind(e.out, V("agg", r.scheme, r.v, PZero)) ELSE UNCHANGED val

TAggVerify == /\ IsEvent("AggVerify")
              /\ LET e == Rec[l]
                     ps == [i \in 1..Len(e.pairs) |-> [pk |-> val[e.pairs[i].pk].den, m |-> TMsg(e.pairs[i].msg)]]
                     a == val[e.agg]
                     r == AggVerify(ps, a.scheme, a.den) IN
                   /\ Known(e.agg, "agg")
                   /\ e.res = r.t
                   /\ IsOk(r) <=> IdealAggVerify(ps, a.scheme, a.den)
              /\ UNCHANGED val

TAccumulate == /\ IsEvent("Accumulate")
               /\ LET e == Rec[l]
                      r == Accumulate(SigSeq(e.sigs)) IN
                    /\ \A i \in 1..Len(e.sigs) : Known(e.sigs[i], "sig")
                    /\ e.res = r.r.t
                    /\ IF IsOk(r.r) THEN Bind(e.out, V("msig", r.scheme, r.v, PZero)) ELSE UNCHANGED val

TMultiKey == /\ IsEvent("MultiKey")
             /\ LET e == Rec[l] IN
                  /\ \A i \in 1..Len(e.pks) : Known(e.pks[i], "pk")
                  /\ Bind(e.out, V("mpk", "", MultiKey([i \in 1..Len(e.pks) |-> val[e.pks[i]].den]), PZero))

TMultiVerify == /\ IsEvent("MultiVerify")
                /\ LET e == Rec[l]
                       s == val[e.msig]
                       r == Verify(val[e.mpk].den, s.scheme, s.den, TMsg(e.msg)) IN
                     /\ Known(e.msig, "msig") /\ Known(e.mpk, "mpk")
                     /\ e.res = r.t
                     /\ IsOk(r) <=> IdealVerify(val[e.mpk].den, s.scheme, s.den, TMsg(e.msg))
                /\ UNCHANGED val

TraceInit == l = 1 /\ val = NoVal
TraceNext == \/ TReset \/ TSk \/ TPk \/ TSign \/ TVerify \/ TSigOp \/ TPkOp \/ TPopProve \/ TPopVerify
             \/ TPopAsSig \/ TAggregate \/ TAggVerify \/ TAccumulate \/ TMultiKey \/ TMultiVerify
TraceSpec == TraceInit /\ [][TraceNext]_tvars

\* C04 on every observed state: nothing accepted had an identity operand (checked inside the
\* actions through the ideal layer).  Acceptance: the whole trace was consumed.
TraceAccepted ==
  LET d == TLCGet("stats").diameter IN
    IF d - 1 = Len(Rec) THEN TRUE
    ELSE Print(<<"TRACE-REJECTED at event", d, IF d <= Len(Rec) THEN ToJson(Rec[d]) ELSE "-">>, FALSE)
=============================================================================
