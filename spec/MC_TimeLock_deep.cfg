SPECIFICATION Spec
CONSTANTS
  Keys <- KeysQ
  Ids <- IdsQ
  Lens <- LensQ
  Depth = 2
  BigTN <- BigT
  MaxN = 3
  Deviations <- NoDev
  Emit = FALSE
INVARIANTS TypeOK OpensExactly OnlyRightSig TamperNothing RelabelNothing OpensIff BenignStillOpens NoIdentity SealRefusesIdentityKey EmitVec
CHECK_DEADLOCK FALSE
