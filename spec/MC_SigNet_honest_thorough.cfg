SPECIFICATION Spec
CONSTANTS
  Keys <- KeysH
  MsgRs <- MsgsH
  Modes <- ModesSingle
  Depth = 0
  AggN = 2
  Emit = TRUE
INVARIANTS TypeOK Complete Exact NoIdentityAccepted Separated AggExact AggRefusal MultiExact EmitVec
CHECK_DEADLOCK FALSE
