------------------------------- MODULE Layout -------------------------------
(***************************************************************************)
(* The documented wire layout of the 28 exported data types: ordered field *)
(* list per type (byte conversion / serde_bare form), variants, and the    *)
(* classification used by the decoders (lazy / exact / secret / bytes).    *)
(* Exported to the harness by MC_Tags; used by Codec and Interop.          *)
(***************************************************************************)
EXTENDS Naturals, Sequences, FiniteSets, TLC

F(n, k) == [name |-> n, kind |-> k]
Sch == {"Basic", "Aug", "Pop"}
One == {"-"}

\* type table: fields (byte / serde_bare form), variants, lazy (points validated on use), exact
\* (byte conversion checks the exact length), secret (byte conversion refuses zero), bytes (has a
\* byte conversion), jsonleaves (number of hex leaves in the JSON form)
T(fields, variants, lazy, exact, secret, bytes) ==
  [fields |-> fields, variants |-> variants, lazy |-> lazy, exact |-> exact, secret |-> secret, bytes |-> bytes]

Types ==
  [ SecretKey                 |-> T(<<F("k", "scalar")>>, One, FALSE, TRUE, TRUE, TRUE),
    ProofCommitmentSecret     |-> T(<<F("x", "scalar")>>, One, FALSE, TRUE, TRUE, TRUE),
    ProofCommitmentChallenge  |-> T(<<F("y", "scalar")>>, One, FALSE, TRUE, TRUE, TRUE),
    SecretKeyEnum             |-> T(<<F("curve", "tag_curve"), F("k", "scalar")>>, {"G1", "G2"}, FALSE, TRUE, TRUE, TRUE),
    PublicKey                 |-> T(<<F("pk", "pointK")>>, One, FALSE, TRUE, FALSE, TRUE),
    MultiPublicKey            |-> T(<<F("pk", "pointK")>>, One, FALSE, TRUE, FALSE, TRUE),
    SignCryptDecryptionKey    |-> T(<<F("key", "pointK")>>, One, FALSE, FALSE, FALSE, TRUE),
    ElGamalDecryptionKey      |-> T(<<F("key", "pointK")>>, One, FALSE, FALSE, FALSE, TRUE),
    ProofOfPossession         |-> T(<<F("pop", "pointS")>>, One, FALSE, TRUE, FALSE, TRUE),
    Signature                 |-> T(<<F("variant", "tag_variant"), F("sig", "pointS")>>, Sch, FALSE, FALSE, FALSE, TRUE),
    AggregateSignature        |-> T(<<F("variant", "tag_variant"), F("sig", "pointS")>>, Sch, FALSE, FALSE, FALSE, TRUE),
    MultiSignature            |-> T(<<F("variant", "tag_variant"), F("sig", "pointS")>>, Sch, FALSE, FALSE, FALSE, TRUE),
    ProofCommitment           |-> T(<<F("variant", "tag_variant"), F("u", "pointS")>>, Sch, FALSE, TRUE, FALSE, TRUE),
    ProofOfKnowledge          |-> T(<<F("variant", "tag_variant"), F("u", "pointS"), F("v", "pointS")>>, Sch, FALSE, FALSE, FALSE, TRUE),
    ProofOfKnowledgeTimestamp |-> T(<<F("variant", "tag_variant"), F("u", "pointS"), F("v", "pointS"), F("ts", "u64le")>>, Sch, FALSE, FALSE, FALSE, TRUE),
    SecretKeyShare            |-> T(<<F("id", "id"), F("value", "scalarLE")>>, One, TRUE, FALSE, FALSE, TRUE),
    PublicKeyShare            |-> T(<<F("id", "id"), F("value", "pointK")>>, One, TRUE, FALSE, FALSE, TRUE),
    SignDecryptionShare       |-> T(<<F("id", "id"), F("value", "pointK")>>, One, TRUE, FALSE, FALSE, TRUE),
    ElGamalDecryptionShare    |-> T(<<F("id", "id"), F("value", "pointK")>>, One, TRUE, FALSE, FALSE, TRUE),
    SignatureShare            |-> T(<<F("scheme", "tag_share"), F("id", "id"), F("value", "pointS")>>, Sch, TRUE, FALSE, FALSE, TRUE),
    InnerPointShareG1         |-> T(<<F("id", "id"), F("value", "point48")>>, One, TRUE, TRUE, FALSE, TRUE),
    InnerPointShareG2         |-> T(<<F("id", "id"), F("value", "point96")>>, One, TRUE, TRUE, FALSE, TRUE),
    SignCryptCiphertext       |-> T(<<F("u", "pointK"), F("v", "varbytes"), F("w", "pointS"), F("scheme", "tag_scheme")>>, Sch, FALSE, FALSE, FALSE, TRUE),
    TimeCryptCiphertext       |-> T(<<F("u", "pointK"), F("v", "bytes32"), F("w", "varbytes"), F("scheme", "tag_scheme")>>, Sch, FALSE, FALSE, FALSE, TRUE),
    ElGamalCiphertext         |-> T(<<F("c1", "pointK"), F("c2", "pointK")>>, One, FALSE, FALSE, FALSE, TRUE),
    ElGamalProof              |-> T(<<F("c1", "pointK"), F("c2", "pointK"), F("mp", "scalar"), F("bp", "scalar"), F("ch", "scalar")>>, One, FALSE, FALSE, FALSE, TRUE),
    SignatureSchemes          |-> T(<<F("scheme", "tag_scheme")>>, Sch, FALSE, FALSE, FALSE, FALSE),
    Bls12381                  |-> T(<<F("curve", "tag_curve")>>, {"G1", "G2"}, FALSE, FALSE, FALSE, FALSE) ]

AllTypes == DOMAIN Types
PointKinds == {"pointS", "pointK", "point48", "point96"}
FieldsOf(t) == {Types[t].fields[i] : i \in 1..Len(Types[t].fields)}
HasKind(t, ks) == \E f \in FieldsOf(t) : f.kind \in ks
\* fixed-size types: the encoded length depends on type and group only
FixedSize(t) == ~HasKind(t, {"varbytes"})

\* encoded length of the byte / bare form for group g (signature-group point = PS, key-group = PK)
PS(g) == IF g = "G1" THEN 48 ELSE 96
PK(g) == IF g = "G1" THEN 96 ELSE 48
KindLen(k, g) == CASE k = "pointS" -> PS(g) [] k = "pointK" -> PK(g) [] k = "point48" -> 48 [] k = "point96" -> 96
                   [] k \in {"scalar", "scalarLE", "bytes32"} -> 32 [] k = "u64le" -> 8 [] OTHER -> 1
RECURSIVE SumLen(_, _, _)
SumLen(fs, i, g) == IF i = 0 THEN 0 ELSE SumLen(fs, i - 1, g) + KindLen(fs[i].kind, g)
EncLen(t, g) == IF FixedSize(t) THEN SumLen(Types[t].fields, Len(Types[t].fields), g) ELSE 0


LayoutTable == [t \in AllTypes |-> Types[t].fields]
LenTable == [t \in AllTypes |-> [G1 |-> EncLen(t, "G1"), G2 |-> EncLen(t, "G2")]]
=============================================================================
