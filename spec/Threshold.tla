----------------------------- MODULE Threshold -----------------------------
(***************************************************************************)
(* Dealer / participants / adversary / combiner / verifier for threshold   *)
(* shares of a secret key.  Serves C08 (and, instanced, C12 C13 C14).      *)
(*                                                                         *)
(* Episode: Split(k,t,n) -> { Combine(kind, sequence handed to combiner) | *)
(*          PartialSign | PartialVerify(i,j) } -> reset.                   *)
(* The sequence handed to the combiner is every sequence without           *)
(* repetition of every length (order matters to the code path) plus one    *)
(* adversarial insertion (duplicate, zero identifier, relabelled           *)
(* identifier, corrupt payload, other scheme) at each position.            *)
(***************************************************************************)
EXTENDS ThOps, Json

CONSTANTS Keys,       \* integer secret keys to deal
          MaxN,       \* exhaustive for all 2 <= t <= n <= MaxN
          BadParams,  \* set of <<t, n>> outside the range, to be refused
          BigTN,      \* set of <<t, n>> beyond MaxN: ideal layer only (32-bit rationals overflow in Lagrange)
          BaseLen,    \* adversarial insertions go into base sequences of length <= BaseLen
          MsgRs, Emit

VARIABLES phase, deal, last
vars == <<phase, deal, last>>

Quiet == [act |-> "-"]
NoDeal == [k |-> 0, t |-> 0, n |-> 0]
ResOf(r) == [res |-> r.t, err |-> r.e]

Secret(k) == PConst(k)
FVal(d, i) == ShareVal(Secret(d.k), "a", d.t, i)

E(id, src, ok, scheme) == [id |-> id, src |-> src, ok |-> ok, scheme |-> scheme]

InjSeqs(n, maxlen) == {s \in UNION {[1..l -> 1..n] : l \in 0..maxlen} : \A i, j \in 1..Len(s) : i # j => s[i] # s[j]}
HonestSeq(s, sch) == [i \in 1..Len(s) |-> E(s[i], s[i], TRUE, sch)]
InsertAt(s, p, e) == [i \in 1..(Len(s) + 1) |-> IF i < p THEN s[i] ELSE IF i = p THEN e ELSE s[i - 1]]

OtherScheme(s) == IF s = "Basic" THEN "Pop" ELSE "Basic"
BadEntries(n, sch, kind) ==
  {E(x, x, TRUE, sch) : x \in 1..n}                     \* duplicate when x is already there, else plain extra share
  \cup {E(0, x, TRUE, sch) : x \in 1..n}                \* zero identifier
  \cup {E((x % n) + 1, x, TRUE, sch) : x \in 1..n}      \* identifier rewritten to a neighbour's
  \cup (IF kind = "sk" THEN {} ELSE {E(x, x, FALSE, sch) : x \in 1..n})   \* payload no longer decodes (every 32-byte string decodes as a scalar share)
  \cup (IF kind = "sk" THEN {} ELSE {E(0, x, FALSE, sch) : x \in 1..n})   \* a blank container: identifier 0 and an all-zero payload (a Default slot)
  \cup (IF kind = "sig" THEN {E(x, x, TRUE, OtherScheme(sch)) : x \in 1..n} ELSE {})
  \* a share of the list's own scheme carried under the MessageAugmentation label (SecretKeyShare::sign never makes
  \* one; the variant is public and every decoder accepts it)
  \cup (IF kind = "sig" THEN {E(x, x, TRUE, "Aug") : x \in 1..n} ELSE {})

EntrySeqs(n, sch, kind) ==
  {HonestSeq(s, sch) : s \in InjSeqs(n, n)}
  \cup UNION {{InsertAt(HonestSeq(s, sch), p, e) : p \in 1..(Len(s) + 1), e \in BadEntries(n, sch, kind)} : s \in InjSeqs(n, BaseLen)}

\* ------------------------------------------------------------ mechanical
\* values carried by the entries
ValsSk(d, es)  == [i \in 1..Len(es) |-> FVal(d, es[i].src)]
ValsPk(d, es)  == [i \in 1..Len(es) |-> GScale(FVal(d, es[i].src), GenK)]
ValsSig(d, es, m) == [i \in 1..Len(es) |-> GScale(FVal(d, es[i].src), Hs(TagOf(es[i].scheme), m))]

\* Signature::from_shares checks the scheme labels first, then combines
SigGuard(es) == IF \E i \in 2..Len(es) : es[i].scheme # es[1].scheme THEN Err("InvalidSignatureScheme") ELSE CombineGuard(es)

Combine(d, kind, es, m) ==
  LET g == IF kind = "sig" THEN SigGuard(es) ELSE CombineGuard(es) IN
  IF ~IsOk(g) THEN [r |-> g, whole |-> FALSE]
  ELSE [r |-> Ok,
        whole |-> CASE kind = "sk"  -> CombinePoly(es, ValsSk(d, es)) = Secret(d.k)
                    [] kind = "pk"  -> CombineGroup(es, ValsPk(d, es)) = GScale(Secret(d.k), GenK)
                    [] kind = "sig" -> CombineGroup(es, ValsSig(d, es, m)) = Sign(Secret(d.k), es[1].scheme, m).v]

\* SecretKeyShare::sign: message augmentation is refused; a share is a non-zero scalar
\* (a share whose scalar is zero never signs: core_sign refuses the zero key - C04)
PartialSignRes(scheme, zero) == IF scheme = "Aug" THEN Err("SigningError") ELSE IF zero THEN Err("SigningError") ELSE Ok

\* PublicKeyShare::verify / SignatureShare::verify: plain verification of the two payloads
PartialVerify(d, i, j, scheme, msign, mver) ==
  Verify(GScale(FVal(d, i), GenK), scheme, GScale(FVal(d, j), Hs(TagOf(scheme), HashMsg(scheme, GScale(FVal(d, j), GenK), msign))), mver)

\* ------------------------------------------------------------ system
Init == phase = "idle" /\ deal = NoDeal /\ last = Quiet

ASplit(k, t, n) ==
  /\ phase = "idle"
  /\ LET r == SplitRes(t, n) IN
     /\ last' = [act |-> "Split", k |-> k, t |-> t, n |-> n, expect |-> ResOf(r)]
     /\ IF IsOk(r) THEN deal' = [k |-> k, t |-> t, n |-> n] /\ phase' = "dealt"
                   ELSE deal' = NoDeal /\ phase' = "judged"

ACombine(kind, sch, es, mr) ==
  /\ phase = "dealt"
  /\ LET c == Combine(deal, kind, es, DenMsg(mr)) IN
       last' = [act |-> "Combine", kind |-> kind, k |-> deal.k, t |-> deal.t, n |-> deal.n, scheme |-> sch,
                msg |-> mr, entries |-> es, expect |-> [res |-> c.r.t, err |-> c.r.e, whole |-> c.whole],
                ideal |-> IdealWhole(es, deal.t), guard |-> (IF kind = "sig" THEN SigGuard(es) ELSE CombineGuard(es)).t]
  /\ phase' = "judged" /\ UNCHANGED deal

APartialSign(i, sch, mr, zero) ==
  /\ phase = "dealt"
  /\ last' = [act |-> "PartialSign", k |-> deal.k, t |-> deal.t, n |-> deal.n, i |-> i, scheme |-> sch, msg |-> mr, zero |-> zero,
              expect |-> ResOf(PartialSignRes(sch, zero))]
  /\ phase' = "judged" /\ UNCHANGED deal

APartialVerify(i, j, sch, ms, mv) ==
  /\ phase = "dealt" /\ sch # "Aug"
  /\ LET r == PartialVerify(deal, i, j, sch, DenMsg(ms), DenMsg(mv)) IN
       last' = [act |-> "PartialVerify", k |-> deal.k, t |-> deal.t, n |-> deal.n, i |-> i, j |-> j, scheme |-> sch,
                msign |-> ms, mver |-> mv, expect |-> ResOf(r), ideal |-> (i = j /\ ms = mv)]
  /\ phase' = "judged" /\ UNCHANGED deal

\* two deals (of key k, then of key k2, made by the same dealer process one after the other) share no randomness:
\* a participant of both who knows k2 and both of its shares learns nothing about k - the classic relation
\* f_k(i) - f_k2(i) + k2 = k holds iff the two polynomials have the same non-constant coefficients; and dealing
\* the same key twice gives different shares
ACrossDeal(k, k2, t, n, i) ==
  /\ phase = "idle"
  /\ LET a == ShareVal(Secret(k), "a", t, i)
         b == ShareVal(Secret(k2), "b", t, i) IN
       last' = [act |-> "CrossDeal", k |-> k, k2 |-> k2, t |-> t, n |-> n, i |-> i,
                expect |-> [res |-> "Ok", leak |-> (PAdd(PSub(a, b), Secret(k2)) = Secret(k)), sameshare |-> (a = b)]]
  /\ phase' = "judged" /\ UNCHANGED deal

\* ---- beyond the exhaustive grid: (t,n) up to 255, expectation from the ideal layer alone ----
ASplitBig(k, t, n) ==
  /\ phase = "idle"
  /\ last' = [act |-> "Split", k |-> k, t |-> t, n |-> n, expect |-> ResOf(SplitRes(t, n))]
  /\ deal' = [k |-> k, t |-> t, n |-> n] /\ phase' = "dealtbig"
ACombineBig(kind, sch, sh, mr) ==
  /\ phase = "dealtbig"
  /\ LET es == HonestSeq(ShapeIds(sh, deal.t, deal.n), sch)
         g  == CombineGuard(es) IN
       last' = [act |-> "Combine", kind |-> kind, k |-> deal.k, t |-> deal.t, n |-> deal.n, scheme |-> sch,
                msg |-> mr, entries |-> es, expect |-> [res |-> g.t, err |-> g.e, whole |-> (IsOk(g) /\ IdealWhole(es, deal.t))],
                ideal |-> IdealWhole(es, deal.t), guard |-> g.t, layer |-> "ideal"]
  /\ phase' = "judged" /\ UNCHANGED deal

AReset == phase = "judged" /\ phase' = "idle" /\ deal' = NoDeal /\ last' = Quiet

TN == {<<t, n>> \in (2..MaxN) \X (2..MaxN) : t <= n}

Next ==
  \/ (phase = "idle" /\ \E k \in Keys, tn \in TN \cup BadParams : ASplit(k, tn[1], tn[2]))
  \/ (phase = "dealt" /\ \E kind \in {"sk", "pk"} : \E es \in EntrySeqs(deal.n, "", kind) : ACombine(kind, "", es, <<>>))
  \/ (phase = "dealt" /\ \E sch \in {"Basic", "Pop"}, mr \in MsgRs : \E es \in EntrySeqs(deal.n, sch, "sig") : ACombine("sig", sch, es, mr))
  \/ (phase = "dealt" /\ \E i \in 1..deal.n, sch \in Schemes, mr \in MsgRs, zero \in BOOLEAN : APartialSign(i, sch, mr, zero))
  \/ (phase = "dealt" /\ \E i, j \in 1..deal.n, sch \in {"Basic", "Pop"}, ms, mv \in MsgRs : APartialVerify(i, j, sch, ms, mv))
  \/ (phase = "idle" /\ \E k \in Keys, k2 \in Keys, tn \in TN : \E i \in 1..tn[2] : ACrossDeal(k, k2, tn[1], tn[2], i))
  \/ (phase = "idle" /\ \E k \in Keys, tn \in BigTN : ASplitBig(k, tn[1], tn[2]))
  \/ (phase = "dealtbig" /\ \E kind \in {"sk", "pk"}, sh \in Shapes : ACombineBig(kind, "", sh, <<>>))
  \/ (phase = "dealtbig" /\ \E sch \in {"Basic", "Pop"}, sh \in Shapes, mr \in MsgRs : ACombineBig("sig", sch, sh, mr))
  \/ AReset

Spec == Init /\ [][Next]_vars

\* ------------------------------------------------------------ properties (C08)
Judged(a) == last.act = a

\* t or more distinct untouched shares give exactly the whole-key value; anything the combiner
\* accepts with fewer, or with a touched share, is never the whole-key value
Recombine ==
  Judged("Combine") =>
    /\ last.ideal => (last.expect.res = "Ok" /\ last.expect.whole)
    /\ (last.expect.res = "Ok" /\ ~last.ideal) => ~last.expect.whole
\* empty, single, duplicated, zero-identifier, undecodable or mixed-scheme sets are errors
ErrorClasses ==
  Judged("Combine") =>
    ((last.expect.res = "Err") <=>
       \/ Len(last.entries) < 2
       \/ \E i \in 1..Len(last.entries) : last.entries[i].id = 0 \/ ~last.entries[i].ok
       \/ \E i, j \in 1..Len(last.entries) : i # j /\ last.entries[i].id = last.entries[j].id
       \/ \E i \in 1..Len(last.entries) : last.entries[i].scheme # last.entries[1].scheme)
\* deals are independent: no cross-deal relation reveals a key, no share repeats
DealsIndependent == Judged("CrossDeal") => (~last.expect.leak /\ ~last.expect.sameshare)
ParamRange == Judged("Split") => ((last.expect.res = "Ok") <=> (2 <= last.t /\ last.t <= last.n /\ last.n <= 255))
PartialExact == Judged("PartialVerify") => ((last.expect.res = "Ok") <=> last.ideal)
AugRefused == Judged("PartialSign") => ((last.expect.res = "Err") <=> (last.scheme = "Aug" \/ last.zero))

EmitVec == (Emit /\ last.act # "-") => PrintT(<<"VEC", ToJson([spec |-> "Threshold"] @@ last)>>)
TypeOK == phase \in {"idle", "dealt", "dealtbig", "judged"}
=============================================================================
