------------------------------- MODULE Codec -------------------------------
(***************************************************************************)
(* The three wire codecs of the 28 exported data types: encoder, mutator,  *)
(* decoder, consumer.  Serves C15 C16 C17 (and feeds C18).                 *)
(*   src/macros.rs, src/helpers.rs, src/traits/serdes.rs, src/lib.rs and   *)
(*   every data type's From / TryFrom / Serialize / Deserialize block      *)
(*                                                                         *)
(* Layout = ordered field list per type (the documented wire format):      *)
(*   pointS / pointK  compressed point of the signature / key group        *)
(*   point48 / point96  fixed-size point of the G1 / G2 share containers   *)
(*   scalar   32 bytes big endian        scalarLE  32 bytes little endian  *)
(*   id       1 byte share identifier    u64le     8 bytes                 *)
(*   tag_variant  enum variant index 0/1/2 (strict)                        *)
(*   tag_scheme   scheme byte 0/1/2, parsed leniently (others -> PoP)      *)
(*   tag_curve    curve byte 1/2 (strict)                                  *)
(*   bytes32  fixed 32 bytes             varbytes  LEB128 length || bytes  *)
(*                                                                         *)
(* The decoder is written as micro-steps with the outcome of each mutation *)
(* class; the consumer step is where the lazily validated share containers *)
(* are judged.                                                             *)
(***************************************************************************)
EXTENDS Layout, Json

CONSTANTS TypeNames,    \* which types this run enumerates
          Codecs,       \* subset of {"bytes", "bare", "json"}
          VClasses,     \* value classes
          Deviations, Emit

VARIABLES phase, wire, last
vars == <<phase, wire, last>>

\* ------------------------------------------------------------ mutations
M(kind, field, class) == [kind |-> kind, field |-> field, class |-> class, leaf |-> 0]
ML(kind, leaf, class) == [kind |-> kind, field |-> "", class |-> class, leaf |-> leaf]
InvalidPointClasses == {"offsubgroup", "shifted", "nopoint", "noncanon", "badflags", "infflag"}
PointClasses == InvalidPointClasses \cup {"identity"}
ScalarClasses == {"zero", "one", "r_minus_1", "r", "r_plus_5", "max", "byte80"}

BinMutations(t) ==
  {M("none", "", ""), M("trunc", "", ""), M("trunc_all", "", ""), M("extend", "", "")}
  \* a byte in front of a valid encoding (a tag of another type's format, a zero, 0xff): an exact-length conversion
  \* refuses it; for the others everything shifts and the outcome is whatever the shifted bytes say
  \cup {M("prepend", "", c) : c \in {"0", "1", "2", "255"}}
  \cup {M("point", f.name, c) : f \in {x \in FieldsOf(t) : x.kind \in PointKinds}, c \in PointClasses}
  \cup {M("scalar", f.name, c) : f \in {x \in FieldsOf(t) : x.kind \in {"scalar", "scalarLE"}}, c \in ScalarClasses}
  \cup {M("tag", f.name, c) : f \in {x \in FieldsOf(t) : x.kind \in {"tag_variant", "tag_scheme", "tag_curve", "tag_share"}}, c \in {"0", "1", "2", "3", "7", "255"}}
  \cup {M("id", f.name, c) : f \in {x \in FieldsOf(t) : x.kind = "id"}, c \in {"0", "255"}}
  \cup {M("varlen", f.name, c) : f \in {x \in FieldsOf(t) : x.kind = "varbytes"}, c \in {"plus1", "huge", "overlong"}}

\* JSON: hex leaves in document order = point / scalar / share fields
HexKinds == PointKinds \cup {"scalar", "scalarLE"}
RECURSIVE HexFields(_, _)
HexFields(fs, i) == IF i > Len(fs) THEN <<>>
                    ELSE IF fs[i].kind \in HexKinds THEN <<fs[i]>> \o HexFields(fs, i + 1) ELSE HexFields(fs, i + 1)
\* share containers serialise id || payload as one hex string
JsonLeaves(t) == IF Types[t].lazy THEN <<F("share", "share")>> ELSE HexFields(Types[t].fields, 1)
CountKind(t, ks) == Cardinality({i \in 1..Len(JsonLeaves(t)) : JsonLeaves(t)[i].kind \in ks})
JsonMutations(t) ==
  {M("none", "", ""), M("trunc", "", ""), M("trunc_all", "", ""), M("extend", "", "")}
  \cup {ML("hex", i - 1, c) : i \in 1..Len(JsonLeaves(t)), c \in {"nonhex", "odd", "short", "long", "empty", "upper", "utf8", "plus", "blank"}}
  \cup (IF t = "SecretKeyShare" THEN {}
        ELSE {ML("point", i - 1, c) : i \in 1..CountKind(t, PointKinds \cup {"share"}), c \in PointClasses})
  \cup {ML("scalar", i - 1, c) : i \in 1..CountKind(t, {"scalar"}), c \in ScalarClasses}
  \* the document *shape* around the leaves: a repeated key, an unknown key, keys in another order, the fields as an
  \* array, a null / number / nested object where a string is expected, text wrapped in blanks.  What serde makes of
  \* these is not fixed by any property (unknown keys are ignored today, a sequence is accepted for a struct), so the
  \* verdict is unconstrained ("Any" = Ok or Err); the decoder must not abort, all front ends must agree, and whatever decodes is
  \* a value every consumer can take
  \cup {M("shape", "", c) : c \in {"dupkey", "extrakey", "reorder", "array", "null", "number", "nested", "blanks", "deep", "names"}}

Mutations(t, codec) == IF codec = "json" THEN JsonMutations(t) ELSE BinMutations(t)

\* ------------------------------------------------------------ mechanical layer: the decoders
\* the variant tag an encoder writes for variant v of type t under codec c
Res(r, same, use) == [res |-> r, same |-> same, use |-> use]

\* scalar field decode.  serde (both formats) takes canonical values only and accepts zero (scope note
\* in DESIGN.md: C16 speaks of byte imports).  The byte conversions of the secret-like types refuse
\* zero; they *reduce* values >= r instead of refusing them (D10, outside every listed property), so r
\* itself reduces to zero and is refused, r+5 and 2^256-1 come back as other, valid scalars.
ScalarOutcome(t, codec, class) ==
  IF codec = "bytes" /\ Types[t].secret
  THEN (IF class \in {"zero", "r"} THEN "Err" ELSE "Ok")
  ELSE (IF class \in {"r", "r_plus_5", "max"} THEN "Err" ELSE "Ok")

TagOutcome(kind, class, codec) ==
  CASE kind = "tag_variant" -> IF class \in {"0", "1", "2"} THEN "Ok" ELSE "Err"
    [] kind = "tag_curve"   -> IF class \in {"1", "2"} THEN "Ok" ELSE "Err"
    [] kind = "tag_scheme"  -> "Ok"                                                 \* lenient: unknown bytes parse as PoP
    \* SignatureShare: the byte conversion writes a lenient scheme byte, serde_bare a strict variant index
    [] kind = "tag_share"   -> IF codec = "bytes" \/ class \in {"0", "1", "2"} THEN "Ok" ELSE "Err"

\* the tag byte an encoder writes for this variant
OwnTag(t, variant, field) ==
  CASE variant = "Basic" -> "0" [] variant = "Aug" -> "1" [] variant = "Pop" -> "2"
    [] variant = "G1" -> "1" [] variant = "G2" -> "2" [] OTHER -> "-"
FieldKind(t, name) == (CHOOSE f \in FieldsOf(t) : f.name = name).kind

Decode(t, codec, variant, m) ==
  LET ty == Types[t] IN
  CASE m.kind = "none"   -> Res("Ok", TRUE, IF ty.lazy THEN "Ok" ELSE "-")
    [] m.kind \in {"trunc", "trunc_all"} -> Res("Err", FALSE, "-")     \* every shorter length, incl. the empty input
    [] m.kind = "extend" -> IF codec = "json" THEN Res("Err", FALSE, "-")
                            ELSE IF codec = "bytes" /\ ty.exact THEN Res("Err", FALSE, "-")
                            ELSE Res("Ok", TRUE, IF ty.lazy THEN "Ok" ELSE "-")       \* serde_bare::from_slice ignores trailing bytes
    [] m.kind = "point"  -> IF ty.lazy
                            THEN Res("Ok", FALSE, IF m.class \in InvalidPointClasses THEN "Err" ELSE "Ok")
                            ELSE IF m.class \in InvalidPointClasses THEN Res("Err", FALSE, "-") ELSE Res("Ok", FALSE, "-")
    [] m.kind = "scalar" -> IF ty.lazy THEN Res("Ok", FALSE, "-")
                            ELSE Res(ScalarOutcome(t, codec, m.class), FALSE, "-")
    [] m.kind = "tag"    -> Res(TagOutcome(FieldKind(t, m.field), m.class, codec), (m.class = OwnTag(t, variant, m.field)) \/ (FieldKind(t, m.field) \in {"tag_scheme", "tag_share"} /\ variant = "Pop" /\ m.class \notin {"0", "1"} /\ (FieldKind(t, m.field) = "tag_scheme" \/ codec = "bytes")), "-")
    [] m.kind = "id"     -> Res("Ok", FALSE, IF m.class = "0" THEN "Err" ELSE "Ok")
    [] m.kind = "varlen" -> Res("Err", FALSE, "-")
    [] m.kind = "prepend" -> IF codec = "bytes" /\ ty.exact THEN Res("Err", FALSE, "-") ELSE Res("Any", FALSE, "-")
    [] m.kind = "shape"  -> Res("Any", FALSE, "-")        \* Ok or Err, nothing else
    [] m.kind = "hex"    -> IF m.class = "upper" THEN Res("Ok", TRUE, IF ty.lazy THEN "Ok" ELSE "-") ELSE Res("Err", FALSE, "-")

\* ------------------------------------------------------------ system
Quiet == [act |-> "-"]
NoWire == [type |-> "", codec |-> "", variant |-> "", vclass |-> ""]
Init == phase = "idle" /\ wire = NoWire /\ last = Quiet

AEncode(t, c, v, vc) ==
  /\ phase = "idle" /\ (c = "bytes" => Types[t].bytes)
  /\ wire' = [type |-> t, codec |-> c, variant |-> v, vclass |-> vc]
  /\ last' = Quiet /\ phase' = "wire"

ADecode(m) ==
  /\ phase = "wire"
  /\ LET d == Decode(wire.type, wire.codec, wire.variant, m) IN
       last' = [act |-> "Codec", type |-> wire.type, codec |-> wire.codec, variant |-> wire.variant, vclass |-> wire.vclass,
                mut |-> m, lazy |-> Types[wire.type].lazy, exact |-> Types[wire.type].exact, secret |-> Types[wire.type].secret,
                expect |-> [res |-> d.res, same |-> d.same, use |-> d.use,
                            len |-> IF m.kind = "none" /\ wire.codec # "json" THEN 1 ELSE 0]]
  /\ phase' = "judged" /\ UNCHANGED wire

\* the constant-time zero test of helpers.rs: the bytes are OR-ed into an i8 accumulator t and the
\* result is ((t | -t) >> 7) + 1.  Modelled over all 256 values of the byte-OR; with checked
\* arithmetic the negation of -128 (byte-OR = 0x80) is an abort site ("IsZeroNegOverflow", D1, fixed).
AsI8(b) == IF b >= 128 THEN b - 256 ELSE b
IsZeroOutcome(orv, checked) ==
  IF checked /\ AsI8(orv) = 0 - 128 /\ "IsZeroNegOverflow" \in Deviations THEN "Abort"
  ELSE IF orv = 0 THEN "None" ELSE "Some"
AIsZero(orv, site) ==
  /\ phase = "idle"
  /\ last' = [act |-> "IsZero", orv |-> orv, site |-> site,
              expect |-> [plain |-> IsZeroOutcome(orv, FALSE), checked |-> IsZeroOutcome(orv, TRUE)]]
  /\ phase' = "judged" /\ UNCHANGED wire

\* Default values: what every codec and every consumer does with them.  The defaults are the identity
\* point / the zero scalar / empty payloads, so: they survive serde; the byte conversions of the
\* secret-like types refuse them (zero); no consumer accepts them as valid and none aborts.
HasDefault(t) == t \notin {"SecretKeyShare", "PublicKeyShare", "SignDecryptionShare", "ElGamalDecryptionShare"}
ADefault(t) ==
  /\ phase = "idle" /\ HasDefault(t)
  /\ last' = [act |-> "Default", type |-> t, expect |-> [res |-> "Ok", bytes |-> IF Types[t].secret THEN "Err" ELSE "Ok"]]
  /\ phase' = "judged" /\ UNCHANGED wire

\* constant-time selection (subtle::ConditionallySelectable) of the 12 types that offer it: between two values
\* of one variant, choice 0 gives the first and choice 1 the second - whole values, label included; the derived
\* conditional_assign / conditional_swap follow.  (Between different variants the library panics by documented
\* contract; that is not an action of the model.)
Selectable == {"PublicKey", "MultiPublicKey", "ProofOfPossession", "Signature", "AggregateSignature", "MultiSignature",
               "ProofCommitment", "ProofOfKnowledge", "ProofOfKnowledgeTimestamp", "SignatureShare", "PublicKeyShare",
               "ElGamalCiphertext"}
ASelect(t, var, ch) ==
  /\ phase = "idle" /\ t \in Selectable /\ var \in Types[t].variants /\ ch \in {0, 1}
  /\ last' = [act |-> "Select", type |-> t, variant |-> var, choice |-> ch, expect |-> [res |-> "Ok", pick |-> IF ch = 0 THEN "a" ELSE "b"]]
  /\ phase' = "judged" /\ UNCHANGED wire

AReset == phase = "judged" /\ phase' = "idle" /\ wire' = NoWire /\ last' = Quiet

VClassOk(t, vc) ==
  CASE vc \in {"generic"} -> TRUE
    [] vc = "identity" -> HasKind(t, PointKinds)
    [] vc \in {"scalar1", "scalar_rm1", "scalar80"} -> HasKind(t, {"scalar", "scalarLE"})
    [] vc \in {"empty", "one", "large"} -> HasKind(t, {"varbytes", "u64le"})
    [] vc \in {"id1", "id255", "idany"} -> HasKind(t, {"id"})
    [] OTHER -> FALSE

Next ==
  \/ (phase = "idle" /\ \E t \in TypeNames, c \in Codecs : \E v \in Types[t].variants, vc \in {x \in VClasses : VClassOk(t, x)} : AEncode(t, c, v, vc))
  \/ (phase = "wire" /\ \E m \in Mutations(wire.type, wire.codec) : (wire.vclass = "generic" \/ m.kind = "none") /\ ADecode(m))
  \/ (phase = "idle" /\ \E t \in TypeNames : ADefault(t))
  \/ (phase = "idle" /\ \E t \in Selectable : \E var \in Types[t].variants, ch \in {0, 1} : ASelect(t, var, ch))
  \/ (phase = "idle" /\ \E orv \in 0..255, site \in {"sk_be", "sk_le", "sk_try_from", "enum_be", "secret_be", "challenge_le"} : AIsZero(orv, site))
  \/ AReset

Spec == Init /\ [][Next]_vars

\* ------------------------------------------------------------ properties
Judged == last.act = "Codec"
\* C15: every value survives every encoding unchanged
RoundTrip == (Judged /\ last.mut.kind = "none") => (last.expect.res = "Ok" /\ last.expect.same)
\* C16: a value is only returned if every point in it is valid - at decode, or at use for share containers
OnlyValid ==
  (Judged /\ last.mut.kind = "point" /\ last.mut.class \in InvalidPointClasses) =>
     IF last.lazy THEN last.expect.use = "Err" ELSE last.expect.res = "Err"
\* C16: truncated input is always rejected; exact-length types reject every other length
TruncRejected == (Judged /\ last.mut.kind \in {"trunc", "trunc_all", "varlen"}) => last.expect.res = "Err"
ExactLength == (Judged /\ last.mut.kind = "extend" /\ last.codec = "bytes" /\ last.exact) => last.expect.res = "Err"
\* C16: imported secrets are never zero and never non-canonical
NoZeroSecret == (Judged /\ last.mut.kind = "scalar" /\ last.codec = "bytes" /\ last.secret /\ last.mut.class = "zero") => last.expect.res = "Err"
\* C17: every outcome is a value or an error - never an abort (the decoder has no "Abort" outcome)
NoAbort == /\ Judged => last.expect.res \in {"Ok", "Err", "Any"}
           /\ last.act = "IsZero" => (last.expect.plain \in {"Some", "None"} /\ last.expect.checked \in {"Some", "None"})
ZeroTestExact == last.act = "IsZero" => ((last.expect.plain = "None") <=> (last.orv = 0))

EmitVec == (Emit /\ last.act # "-") => PrintT(<<"VEC", ToJson([spec |-> "Codec"] @@ last)>>)
TypeOK == phase \in {"idle", "wire", "judged"}

=============================================================================
