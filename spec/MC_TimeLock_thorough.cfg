SPECIFICATION Spec
CONSTANTS
  Keys <- KeysT
  Ids <- IdsT
  Lens <- LensT
  Depth = 1
  BigTN <- BigT
  MaxN = 4
  Deviations <- NoDev
  Emit = TRUE
INVARIANTS TypeOK OpensExactly OnlyRightSig TamperNothing RelabelNothing OpensIff BenignStillOpens NoIdentity SealRefusesIdentityKey EmitVec
CHECK_DEADLOCK FALSE
