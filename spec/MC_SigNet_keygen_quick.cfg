SPECIFICATION Spec
CONSTANTS
  Keys <- KeysP
  MsgRs <- MsgsP
  Modes <- ModesKeygen
  Depth = 0
  AggN = 2
  Emit = TRUE
INVARIANTS TypeOK Complete Exact NoIdentityAccepted Separated EmitVec
CHECK_DEADLOCK FALSE
