SPECIFICATION Spec
CONSTANTS
  Keys <- KeysT
  MsgRs <- MsgsT
  Taus <- TausT
  Deviations <- NoDev
  Emit = TRUE
INVARIANTS TypeOK Completeness Bound TimeBound NoIdentity EmitVec
CHECK_DEADLOCK FALSE
