SPECIFICATION Spec
CONSTANTS
  Keys <- KeysT
  MsgRs <- MsgsT
  Taus <- TausT
  Deviations <- NoDev
  Emit = TRUE
INVARIANTS TypeOK Completeness Bound TimeBound ReuseExtracts NoIdentity EmitVec
CHECK_DEADLOCK FALSE
