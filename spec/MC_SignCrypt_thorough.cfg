SPECIFICATION Spec
CONSTANTS
  Keys <- KeysT
  Lens <- LensT
  Depth = 1
  MaxN = 4
  BigTN <- BigQ
  Modes <- ModesAll
  Deviations <- NoDev
  Emit = TRUE
INVARIANTS TypeOK RoundTrip TamperRejected WrongKey CraftRefused NoIdentity ShareExact ShareLinear ShareNoIdentity ThresholdOpen EmitVec
CHECK_DEADLOCK FALSE
