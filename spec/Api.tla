-------------------------------- MODULE Api --------------------------------
(***************************************************************************)
(* The refinement map between specification actions and the public entry   *)
(* points of blsful.  One action of a system module (SigNet, Threshold,    *)
(* Pok, SignCrypt, TimeLock, ElGamal, Codec) is reached in the library     *)
(* through several API paths that are supposed to be equivalent: the       *)
(* struct-level wrappers, the trait-level functions (`pub use traits::*`), *)
(* the facade (`BlsSignature<T>`, the `*Enum` types) and, for codecs, the  *)
(* container / front-end forms.  Every path listed for an action is driven *)
(* by the replay on every vector of that action and judged against the     *)
(* same prediction; a divergence between two paths is a failure of the     *)
(* vector.  The harness refuses to run (tool error) when this table names  *)
(* an entry point it does not drive (`harness api-check`).                 *)
(***************************************************************************)
EXTENDS Naturals, FiniteSets, Sequences

EntryPoints == [
  Sign |-> {"SecretKey::sign", "BlsSignatureBasic::sign", "BlsSignatureMessageAugmentation::sign", "BlsSignaturePop::sign",
            "BlsSignatureCore::core_sign", "SecretKey::public_key", "BlsSignatureCore::public_key"},
  Verify |-> {"Signature::verify", "BlsSignatureBasic::verify", "BlsSignatureMessageAugmentation::verify", "BlsSignaturePop::verify"},
  KeyGen |-> {"SecretKey::from_hash", "BlsSignature::secret_key_from_hash", "SecretKeyEnum::from_hash", "SecretKey::random", "BlsSignature::random_secret_key"},
  PopProve |-> {"SecretKey::proof_of_possession", "BlsSignaturePop::pop_prove"},
  PopVerify |-> {"ProofOfPossession::verify", "BlsSignaturePop::pop_verify"},
  Aggregate |-> {"AggregateSignature::from_signatures", "BlsSignatureCore::aggregate_signatures", "BlsMultiSignature::from_signatures"},
  Accumulate |-> {"MultiSignature::from_signatures", "BlsSignatureCore::aggregate_signatures", "BlsMultiSignature::from_signatures"},
  AggVerify |-> {"AggregateSignature::verify", "BlsSignatureBasic::aggregate_verify", "BlsSignatureMessageAugmentation::aggregate_verify", "BlsSignaturePop::aggregate_verify"},
  MultiVerify |-> {"MultiSignature::verify", "MultiPublicKey::from_public_keys", "BlsMultiKey::from_public_keys", "BlsSignatureCore::aggregate_public_keys",
                   "BlsSignaturePop::multi_sig_verify"},
  PartialSign |-> {"SecretKeyShare::sign", "BlsSignatureBasic::partial_sign", "BlsSignaturePop::partial_sign"},
  PartialVerify |-> {"PublicKeyShare::verify", "SignatureShare::verify", "BlsSignatureBasic::partial_verify", "BlsSignaturePop::partial_verify"},
  Combine |-> {"SecretKey::combine", "PublicKey::from_shares", "Signature::from_shares",
               "BlsSignatureCore::core_combine_public_key_shares", "BlsSignatureCore::core_combine_signature_shares"},
  Pok |-> {"ProofCommitment::generate", "ProofCommitment::finalize", "ProofOfKnowledge::verify", "BlsSignatureProof::verify",
           "ProofCommitmentChallenge::from_hash", "BlsSignature::proof_challenge_from_hash",
           "ProofCommitmentChallenge::random", "BlsSignature::random_proof_challenge"},
  PokTs |-> {"ProofOfKnowledgeTimestamp::generate", "ProofOfKnowledgeTimestamp::verify", "BlsSignatureProof::verify_timestamp_proof"},
  IsValid |-> {"SignCryptCiphertext::is_valid", "BlsSignCrypt::valid"},
  Decrypt |-> {"SignCryptCiphertext::decrypt", "SignCryptDecryptionKey::decrypt", "BlsSignCrypt::unseal"},
  ShareVerify |-> {"SignDecryptionShare::verify", "BlsSignCrypt::verify_share"},
  DecryptShares |-> {"SignCryptCiphertext::decrypt_with_shares", "SignCryptDecryptionKey::from_shares"},
  TLDecrypt |-> {"TimeCryptCiphertext::decrypt", "BlsTimeCrypt::unseal"},
  EGDecrypt |-> {"ElGamalCiphertext::decrypt", "BlsElGamal::decrypt", "BlsElGamal::seal_scalar",
                 "ElGamalCiphertext::add(6 forms)"},
  EGVerify |-> {"ElGamalProof::verify", "BlsElGamal::verify_proof", "BlsElGamal::seal_scalar_with_proof"},
  EGVerifyDecrypt |-> {"ElGamalProof::verify_and_decrypt", "BlsElGamal::verify_and_decrypt"},
  Codec |-> {"TryFrom<&[u8]>", "TryFrom<Vec<u8>>", "TryFrom<&Vec<u8>>", "TryFrom<Box<[u8]>>", "Vec<u8>::from(&T)", "Vec<u8>::from(T)",
             "serde_bare::from_slice", "serde_bare::from_reader",
             "serde_json::from_str", "serde_json::from_slice", "serde_json::from_reader", "serde_json::from_value",
             "serde_json::to_string", "serde_json::to_vec", "serde_json::to_value", "serde_json::to_string_pretty",
             "[u8; 32]::from(&SecretKey)", "[u8; 32]::from(SecretKey)",
             "from_be_bytes", "from_le_bytes", "to_be_bytes", "to_le_bytes"}
]

Actions == DOMAIN EntryPoints
AllEntryPoints == UNION {EntryPoints[a] : a \in Actions}
\* the map is total on what it names and every action can be reached at struct level and at one more level
WellFormed == \A a \in Actions : Cardinality(EntryPoints[a]) >= 2
ApiTable == [a \in Actions |-> EntryPoints[a]]
=============================================================================
