------------------------------ MODULE SigOps ------------------------------
(***************************************************************************)
(* Pure operators of the signature ecosystem (no state): the mechanical    *)
(* layer - every public operation of blsful as the code computes it,       *)
(* guards in source order, then the formula - and the ideal layer - what   *)
(* the properties say in terms of the unique element / provenance.         *)
(* Used by SigNet (model checking, vector generation) and by Trace_SigNet  *)
(* (validation of traces recorded from the real library).                  *)
(*   src/traits/sig_core.rs, sig_basic.rs, sig_aug.rs, sig_pop.rs,         *)
(*   src/signature.rs, aggregate_signature.rs, multi_signature.rs,         *)
(*   multi_public_key.rs, proof_of_possession.rs                           *)
(***************************************************************************)
EXTENDS Alg, Tags

\* ---------------------------------------------------------------- recipes
\* message recipe chunk: [c |-> "a"|"b"|..., k |-> 0] atom ; [c |-> "pk", k |-> key] encoding of pk(key)
SkOf(k)   == PConst(k)
PkOf(k)   == GMulInt(k, GenK)
DenChunk(ch) == IF ch.c = "pk" THEN EncK(PkOf(ch.k)) ELSE Atom(ch.c)
DenMsg(mr) == [i \in 1..Len(mr) |-> DenChunk(mr[i])]

\* --------------------------------------------------- mechanical layer
\* BlsSignatureMessageAugmentation::sign/verify: the hashed message is pk_bytes || msg
HashMsg(scheme, pk, m) == IF scheme = "Aug" THEN <<EncK(pk)>> \o m ELSE m
HashPre(scheme) == IF scheme = "Aug" THEN "pk" ELSE ""

\* sig_core.rs core_sign
CoreSign(sk, m, tag) ==
  IF PIsZero(sk) THEN [r |-> Err("SigningError"), v |-> GId]
  ELSE [r |-> Ok, v |-> GScale(sk, Hs(tag, m))]

\* secret_key.rs SecretKey::sign  (dispatch on scheme; aug prefixes pk bytes)
Sign(sk, scheme, m) == CoreSign(sk, HashMsg(scheme, GScale(sk, GenK), m), TagOf(scheme))

\* sig_core.rs core_verify: guard order preserved
CoreVerify(pk, sig, m, tag) ==
  IF GIsId(sig) THEN Err("InvalidInputs")
  ELSE IF GIsId(pk) THEN Err("InvalidInputs")
  ELSE IF GtOne(PairList(<< <<Hs(tag, m), pk>>, <<sig, GNeg(GenK)>> >>)) THEN Ok
  ELSE Err("InvalidSignature")

\* signature.rs Signature::verify: dispatch on the artefact's own variant
Verify(pk, scheme, sig, m) == CoreVerify(pk, sig, HashMsg(scheme, pk, m), TagOf(scheme))

\* sig_pop.rs pop_prove / pop_verify
PopProve(sk) == CoreSign(sk, <<EncK(GScale(sk, GenK))>>, "POPPROOF")
PopVerify(pk, proof) == CoreVerify(pk, proof, <<EncK(pk)>>, "POPPROOF")

\* aggregate_signature.rs TryFrom<&[Signature]>: sigs = sequence of [scheme, den]
Aggregate(sigs) ==
  IF Len(sigs) < 2 THEN [r |-> Err("InvalidSignature"), scheme |-> "", v |-> GId]
  ELSE IF \E i \in 2..Len(sigs) : sigs[i].scheme # sigs[1].scheme
       THEN [r |-> Err("InvalidSignatureScheme"), scheme |-> "", v |-> GId]
  ELSE [r |-> Ok, scheme |-> sigs[1].scheme, v |-> GSumSeq([i \in 1..Len(sigs) |-> sigs[i].den])]

\* multi_signature.rs TryFrom<&[Signature]>: like Aggregate, but an Aug signature at
\* position >= 2 is refused; an all-Aug list is refused by that same arm
Accumulate(sigs) ==
  IF Len(sigs) < 2 THEN [r |-> Err("InvalidSignature"), scheme |-> "", v |-> GId]
  ELSE IF \E i \in 2..Len(sigs) : sigs[i].scheme # sigs[1].scheme \/ sigs[i].scheme = "Aug"
       THEN [r |-> Err("InvalidSignatureScheme"), scheme |-> "", v |-> GId]
  ELSE [r |-> Ok, scheme |-> sigs[1].scheme, v |-> GSumSeq([i \in 1..Len(sigs) |-> sigs[i].den])]

\* multi_public_key.rs from_public_keys: plain sum, no guard
MultiKey(pks) == GSumSeq(pks)

\* sig_core.rs core_aggregate_verify over pairs = sequence of [pk, hm] (hm = hashed message)
CoreAggVerify(pairs, sig, tag) ==
  IF GIsId(sig) THEN Err("InvalidInputs")
  ELSE IF \E i \in 1..Len(pairs) : GIsId(pairs[i].pk) THEN Err("InvalidInputs")
  ELSE IF GtOne(PairList([i \in 1..Len(pairs) |-> <<Hs(tag, pairs[i].hm), pairs[i].pk>>]
                         \o << <<sig, GNeg(GenK)>> >>)) THEN Ok
  ELSE Err("InvalidSignature")

\* AggregateSignature::verify: Basic de-duplicates messages first (sig_basic.rs), aug prefixes
\* each pk, PoP passes through.  pairs = sequence of [pk, m]
AggVerify(pairs, scheme, sig) ==
  IF scheme = "Basic" /\ \E i, j \in 1..Len(pairs) : i < j /\ pairs[i].m = pairs[j].m
  THEN Err("InvalidInputs")
  ELSE CoreAggVerify([i \in 1..Len(pairs) |-> [pk |-> pairs[i].pk, hm |-> HashMsg(scheme, pairs[i].pk, pairs[i].m)]],
                     sig, TagOf(scheme))

\* -------------------------------------------------------- ideal layer
\* the discrete log of a key-group element built from P alone is its P-coefficient
DlogK(pk) == GC(pk, SymP)
\* the one element that verifies for (pk, scheme, m)
IdealSig(pk, scheme, m) == GScale(DlogK(pk), Hs(TagOf(scheme), HashMsg(scheme, pk, m)))
IdealVerify(pk, scheme, sig, m) == ~GIsId(pk) /\ ~GIsId(sig) /\ sig = IdealSig(pk, scheme, m)
IdealPop(pk) == GScale(DlogK(pk), Hs("POPPROOF", <<EncK(pk)>>))
IdealAgg(pairs, scheme) ==
  GSumSeq([i \in 1..Len(pairs) |-> IdealSig(pairs[i].pk, scheme, pairs[i].m)])
IdealAggVerify(pairs, scheme, sig) ==
  /\ ~GIsId(sig)
  /\ \A i \in 1..Len(pairs) : ~GIsId(pairs[i].pk)
  /\ scheme = "Basic" => \A i, j \in 1..Len(pairs) : i # j => pairs[i].m # pairs[j].m
  /\ sig = IdealAgg(pairs, scheme)

=============================================================================
