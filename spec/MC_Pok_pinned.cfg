SPECIFICATION Spec
CONSTANTS
  Keys <- KeysQ
  MsgRs <- MsgsQ
  Taus <- TausQ
  Deviations <- DevD6
  Emit = TRUE
INVARIANTS TypeOK Completeness Bound TimeBound ReuseExtracts NoIdentity EmitVec
CHECK_DEADLOCK FALSE
