SPECIFICATION Spec
CONSTANTS
  Keys <- KeysA
  MsgRs <- MsgsA
  Modes <- ModesMulti
  Depth = 1
  AggN = 3
  Emit = TRUE
INVARIANTS TypeOK Complete Exact NoIdentityAccepted Separated AggExact AggRefusal MultiExact EmitVec
CHECK_DEADLOCK FALSE
