SPECIFICATION Spec
CONSTANTS
  Keys <- KeysP
  MsgRs <- MsgsP
  Modes <- ModesPop
  Depth = 1
  AggN = 2
  Emit = TRUE
INVARIANTS TypeOK Complete Exact NoIdentityAccepted Separated AggExact AggRefusal MultiExact EmitVec
CHECK_DEADLOCK FALSE
