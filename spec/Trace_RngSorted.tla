-------------------------- MODULE Trace_RngSorted --------------------------
(***************************************************************************)
(* The Draw action of Rng over a *sorted* log, for volumes where keeping   *)
(* the set of all values drawn so far is too slow in TLC.  NoReuse does    *)
(* not depend on the order of the draws, so the recorded observables       *)
(* (96-bit prefixes of their hashes as three 30/32-bit integers) are       *)
(* sorted by the orchestration script and TLC checks that the sequence is  *)
(* strictly increasing - which both re-checks the sorting and proves that  *)
(* no two draws (of ephemerals or of generator fingerprints) are equal.    *)
(***************************************************************************)
EXTENDS Naturals, Sequences, TLC, Json, IOUtils, TLCExt
Rec == ndJsonDeserialize(IOEnv.TRACE)
VARIABLES l, prev
tvars == <<l, prev>>
Less(a, b) == \/ a[1] < b[1]
              \/ (a[1] = b[1] /\ a[2] < b[2])
              \/ (a[1] = b[1] /\ a[2] = b[2] /\ a[3] < b[3])
TDraw == /\ l <= Len(Rec) /\ Rec[l].ev = "Draw"
         /\ Less(prev, Rec[l].k)
         /\ prev' = Rec[l].k /\ l' = l + 1
TraceInit == l = 1 /\ prev = <<0, 0, 0>>
TraceSpec == TraceInit /\ [][TDraw]_tvars
TraceAccepted ==
  LET d == TLCGet("stats").diameter IN
    IF d - 1 = Len(Rec) THEN TRUE
    ELSE Print(<<"TRACE-REJECTED at event", d, IF d <= Len(Rec) THEN ToJson(Rec[d]) ELSE "-">>, FALSE)
=============================================================================
