----------------------------- MODULE MC_Codec -----------------------------
EXTENDS Codec
AllT == AllTypes
CodecsAll == {"bytes", "bare", "json"}
VQ == {"generic", "identity", "scalar1", "scalar_rm1", "scalar80", "empty", "one", "large", "id1", "id255"}
NoDev == {}
=============================================================================
