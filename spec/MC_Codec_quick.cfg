SPECIFICATION Spec
CONSTANTS
  TypeNames <- AllT
  Codecs <- CodecsAll
  VClasses <- VQ
  Deviations <- NoDev
  Emit = TRUE
INVARIANTS TypeOK RoundTrip OnlyValid TruncRejected ExactLength NoZeroSecret NoAbort ZeroTestExact EmitVec
CHECK_DEADLOCK FALSE
