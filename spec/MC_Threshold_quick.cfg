SPECIFICATION Spec
CONSTANTS
  Keys <- KeysQ
  MaxN = 4
  BadParams <- BadQ
  BigTN <- BigQ
  BaseLen = 2
  MsgRs <- Msgs2
  Emit = TRUE
INVARIANTS TypeOK Recombine ErrorClasses DealsIndependent ParamRange PartialExact AugRefused EmitVec
CHECK_DEADLOCK FALSE
