------------------------------ MODULE MC_Tags ------------------------------
(* Exports the constant tables of the specification as JSON (one line) and   *)
(* checks the C05 constant invariants.  Run by scripts/vcheck.py.            *)
EXTENDS Tags, Layout, Api, Json
SchemeTable == [s \in Schemes |-> [tag |-> TagOf(s), pre |-> IF s = "Aug" THEN "pk" ELSE "",
                                   distinct |-> (s = "Basic"),
                                   byte |-> SchemeByte(s), json |-> SchemeJson(s)]]
Export == [tags |-> TagTable, salts |-> SaltTable, schemes |-> SchemeTable, keygen_l |-> KeyGenL,
           merlin |-> [proto |-> MerlinProto, labels |-> MerlinLabels, challenge |-> MerlinChallenge],
           curve |-> [g \in Groups |-> [byte |-> CurveByte(g), json |-> CurveJson(g)]],
           layout |-> LayoutTable, lens |-> LenTable, api |-> ApiTable]
ASSUME Distinct
ASSUME IetfConform
ASSUME WellFormed
ASSUME PrintT(<<"TABLES", ToJson(Export)>>)
VARIABLE x
Init == x = 0
Next == UNCHANGED x
Spec == Init /\ [][Next]_x
=============================================================================
