----------------------------- MODULE Trace_Tags -----------------------------
(* The domain-separation constants the library exposes, recorded from the    *)
(* real library, validated against the table of spec/Tags.tla (C03, C05).    *)
EXTENDS Tags, Json, IOUtils, TLCExt
Rec == ndJsonDeserialize(IOEnv.TRACE)
VARIABLES l, seen
tvars == <<l, seen>>
TConst == /\ l <= Len(Rec) /\ Rec[l].ev = "Const"
          /\ Rec[l].group \in Groups /\ Rec[l].name \in TagNames
          /\ Rec[l].value = TagTable[Rec[l].group][Rec[l].name]
          /\ Rec[l].value \notin seen              \* pairwise distinct, as observed
          /\ seen' = seen \cup {Rec[l].value} /\ l' = l + 1
TraceInit == l = 1 /\ seen = {}
TraceSpec == TraceInit /\ [][TConst]_tvars
TraceAccepted ==
  LET d == TLCGet("stats").diameter IN
    IF d - 1 = Len(Rec) /\ Len(Rec) = Cardinality(Groups) * Cardinality(TagNames) /\ Distinct /\ IetfConform THEN TRUE
    ELSE Print(<<"TRACE-REJECTED at event", d, IF d <= Len(Rec) THEN ToJson(Rec[d]) ELSE "-">>, FALSE)
=============================================================================
