------------------------------- MODULE Alg -------------------------------
(***************************************************************************)
(* The symbolic bilinear group used by every system module.                *)
(*                                                                         *)
(*  Rat   : normalised rationals <<n,d>>, d > 0, over TLC's 32-bit ints    *)
(*          (an overflow is a TLC error, never a silent wrong value).      *)
(*  Poly  : sparse polynomials over Rat in *atoms* (values the library     *)
(*          draws at random, or keys the harness derived from a hash):     *)
(*          function  monomial (a bag of atom names) -> non-zero Rat.      *)
(*  Group : an element of the signature group S, the key group K or the    *)
(*          target group T is a function  basis symbol -> non-zero Poly.   *)
(*          Basis symbols are records [h, tag, m]:                         *)
(*             "P"  generator of K        "Gs" generator of S              *)
(*             "Hm" ElGamal message generator (= hash_to_curve(enc(P)))    *)
(*             "H"  hash_to_curve(m, tag) with m a sequence of chunks      *)
(*          T basis = pairs <<S-symbol, K-symbol>>.                        *)
(*                                                                         *)
(* A verification equation holds in the model iff it is a polynomial       *)
(* identity (generic-group / random-oracle model, DESIGN.md 2.2).          *)
(***************************************************************************)
EXTENDS Integers, Sequences, FiniteSets, Bags, FiniteSetsExt, TLC

\* ------------------------------------------------------------------ Rat
RECURSIVE GCD(_,_)
GCD(a,b) == IF b = 0 THEN a ELSE GCD(b, a % b)
Abs(x) == IF x < 0 THEN -x ELSE x
Norm(n,d) == IF n = 0 THEN <<0,1>>
             ELSE LET g == GCD(Abs(n),Abs(d))
                      s == IF d < 0 THEN -1 ELSE 1
                  IN <<s*(n \div g), s*(d \div g)>>
RAdd(a,b) == Norm(a[1]*b[2]+b[1]*a[2], a[2]*b[2])
RMul(a,b) == Norm(a[1]*b[1], a[2]*b[2])
RNeg(a)   == <<-a[1], a[2]>>
RInv(a)   == Norm(a[2], a[1])          \* a # 0
RZ == <<0,1>>
RI(k) == <<k,1>>

\* ----------------------------------------------------------------- Poly
\* TLCEval forces the (otherwise lazily represented) function to be materialised: a lazy function that is
\* applied twice per element and nests through a chain of sums is re-evaluated 2^depth times by TLC
Prune(f)  == LET ff == TLCEval(f) IN TLCEval([m \in {x \in DOMAIN ff : ff[x][1] # 0} |-> ff[m]])
PZero     == [m \in {} |-> RZ]
PRat(q)   == IF q[1] = 0 THEN PZero ELSE [m \in {EmptyBag} |-> q]
PConst(k) == PRat(RI(k))
PAtom(a)  == [m \in {SetToBag({a})} |-> <<1,1>>]
PC(p,m)   == IF m \in DOMAIN p THEN p[m] ELSE RZ
PAdd(p,q) == Prune([m \in (DOMAIN p) \cup (DOMAIN q) |-> RAdd(PC(p,m),PC(q,m))])
PNeg(p)   == TLCEval([m \in DOMAIN p |-> RNeg(p[m])])
PSub(p,q) == PAdd(p, PNeg(q))
PScaleR(q,p) == IF q[1] = 0 THEN PZero ELSE TLCEval([m \in DOMAIN p |-> RMul(q,p[m])])
PMulGen(p,q) == LET prods == {<<a,b>> : a \in DOMAIN p, b \in DOMAIN q}
                    ms == {pr[1] (+) pr[2] : pr \in prods}
                IN Prune([m \in ms |-> FoldSet(LAMBDA pr,acc: IF pr[1] (+) pr[2] = m
                                       THEN RAdd(acc, RMul(p[pr[1]],q[pr[2]])) ELSE acc, RZ, prods)])
\* fast paths: a constant factor only rescales (all of SigNet lives here)
PMul(p,q) == IF DOMAIN p = {} \/ DOMAIN q = {} THEN PZero
             ELSE IF DOMAIN p = {EmptyBag} THEN PScaleR(p[EmptyBag], q)
             ELSE IF DOMAIN q = {EmptyBag} THEN PScaleR(q[EmptyBag], p)
             ELSE PMulGen(p,q)
PIsZero(p) == DOMAIN p = {}

\* ---------------------------------------------------------------- Group
GPrune(f)   == LET ff == TLCEval(f) IN TLCEval([b \in {x \in DOMAIN ff : DOMAIN ff[x] # {}} |-> ff[b]])
GId         == [b \in {} |-> PZero]
GBase(b)    == [x \in {b} |-> PConst(1)]
GC(g,b)     == IF b \in DOMAIN g THEN g[b] ELSE PZero
GAdd(g,h)   == GPrune([b \in (DOMAIN g) \cup (DOMAIN h) |-> PAdd(GC(g,b),GC(h,b))])
GScale(p,g) == GPrune([b \in DOMAIN g |-> PMul(p,g[b])])
GNeg(g)     == TLCEval([b \in DOMAIN g |-> PNeg(g[b])])
GSub(g,h)   == GAdd(g, GNeg(h))
GIsId(g)    == DOMAIN g = {}
GMulInt(k,g) == GScale(PConst(k), g)

\* sums over sequences by index recursion on the materialised sequence
GSumSeq(s) == LET ss == TLCEval(s)
                  RECURSIVE S(_)
                  S(i) == IF i = 0 THEN GId ELSE GAdd(S(i - 1), ss[i])
              IN S(Len(ss))

\* pairing e(x in S, y in K) as a formal bilinear map into T
PairOne(x,y) == GPrune([bb \in (DOMAIN x) \X (DOMAIN y) |-> PMul(x[bb[1]], y[bb[2]])])
PairList(l) == LET ll == TLCEval(l)
                   RECURSIVE S(_)
                   S(i) == IF i = 0 THEN GId ELSE GAdd(S(i - 1), PairOne(ll[i][1], ll[i][2]))
               IN S(Len(ll))
GtOne(t)    == DOMAIN t = {}

\* -------------------------------------------------------- basis symbols
\* message chunks: [k |-> kind, s |-> name, e |-> embedded element]
\*   kind "a"   : opaque byte-string atom named s           (e = GId)
\*   kind "pk"  : the encoding of the K element e            (s = "")
\*   kind "sg"  : the encoding of the S element e            (s = "")
\*   kind "lit" : a literal such as LE64 of a timestamp class (e = GId)
Atom(s)   == [k |-> "a",  s |-> s,  e |-> GId]
EncK(x)   == [k |-> "pk", s |-> "", e |-> x]
EncS(x)   == [k |-> "sg", s |-> "", e |-> x]
Lit(s)    == [k |-> "lit", s |-> s, e |-> GId]

SymP  == [h |-> "P",  tag |-> "", m |-> <<>>]
SymGs == [h |-> "Gs", tag |-> "", m |-> <<>>]
SymHm == [h |-> "Hm", tag |-> "", m |-> <<>>]
SymH(tag, m) == [h |-> "H", tag |-> tag, m |-> m]

GenK == GBase(SymP)                    \* generator of the key group
GenS == GBase(SymGs)                   \* generator of the signature group
GenM == GBase(SymHm)                   \* ElGamal message generator (key group)
Hs(tag, m) == GBase(SymH(tag, m))      \* hash_to_curve(m, tag) in the signature group

\* -------------------------------------------------------------- results
Ok       == [t |-> "Ok",  e |-> ""]
Err(v)   == [t |-> "Err", e |-> v]
IsOk(r)  == r.t = "Ok"
=============================================================================
