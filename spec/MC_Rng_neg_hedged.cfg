SPECIFICATION Spec
CONSTANTS
  Procs <- P2
  Threads <- T2
  Calls = 1
  Draws = 1
  Mode = "hedged"
INVARIANTS TypeOK NoReuse FreshGenerators
CHECK_DEADLOCK FALSE
