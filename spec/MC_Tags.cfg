SPECIFICATION Spec
