SPECIFICATION Spec
CONSTANTS
  Procs <- P2
  Threads <- T2
  Calls = 2
  Draws = 1
  Mode = "entropy"
INVARIANTS TypeOK NoReuse FreshGenerators
CHECK_DEADLOCK FALSE
