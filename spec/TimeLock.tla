------------------------------ MODULE TimeLock ------------------------------
(***************************************************************************)
(* Time-lock encryption: sender / signer (whole key or threshold) /        *)
(* adversary / opener.  Serves C13 (and the time-lock sites of C04 C05).   *)
(*   src/traits/time_crypt.rs, src/time_crypt_ciphertext.rs,               *)
(*   src/public_key.rs (encrypt_time_lock)                                 *)
(*                                                                         *)
(* seal:  alpha <- random; r = Hr(alpha, SHA256(M)); U = r P;              *)
(*        K = e(H(tag, id'), r pk); V = SHA256(K) xor alpha;               *)
(*        W = XOF(alpha) xor Frame(M)                                      *)
(* open:  K' = e(sig, U); alpha' = SHA256(K') xor V; M' = parse(XOF(alpha') *)
(*        xor W); accept iff Hr(alpha', SHA256(M')) P = U (Fujisaki-Okamoto *)
(*        re-check), the schemes match and neither sig nor U is identity.  *)
(* id' is the identifier as the matching signature scheme hashes it: for   *)
(* message augmentation  enc(pk) || id.  (The pinned release hashed the    *)
(* plain id: deviation "TimeLockAugPlainId", D7, repaired by a fix commit.)*)
(***************************************************************************)
EXTENDS ThOps, Json

CONSTANTS Keys, Ids, Lens, Depth, MaxN, BigTN, Deviations, Emit

VARIABLES phase, ct, last
vars == <<phase, ct, last>>

Leb128Len(n) == IF n < 128 THEN 1 ELSE IF n < 16384 THEN 2 ELSE IF n < 2097152 THEN 3 ELSE 4
FrameLen(n)  == IF Leb128Len(n) + n < 32 THEN 32 ELSE Leb128Len(n) + n
HasPadding(n) == Leb128Len(n) + n < 32

\* identifier recipes are message recipes (sequences of [c,k] chunks)
SealId(scheme, pk, id) == IF "TimeLockAugPlainId" \in Deviations THEN id ELSE HashMsg(scheme, pk, id)

\* BlsTimeCrypt::seal (r is the atom "r": a function of alpha and M only)
\* (ra = name of the atom r: "r" in the model, one fresh name per ciphertext in recorded traces)
SealR(pk, scheme, idm, n, ra) ==
  LET r == PAtom(ra) IN
  [u |-> GScale(r, GenK),
   vk |-> PairList(<< <<Hs(TagOf(scheme), SealId(scheme, pk, idm)), GScale(r, pk)>> >>), vtam |-> "",
   wn |-> n, wtam |-> "", scheme |-> scheme]

Seal(pk, scheme, idm, n) == SealR(pk, scheme, idm, n, "r")

\* what the FO re-check sees after unmasking W with the right alpha
WOutcome(n, wtam) ==
  CASE wtam = ""             -> "M"
    [] wtam = "flip-prefix"  -> "other"
    [] wtam = "flip-message" -> "other"
    [] wtam = "flip-padding" -> "M"
    [] wtam = "extend"       -> "M"
    [] wtam = "trunc-pad"    -> "M"          \* cut inside the padding only
    [] wtam = "trunc-msg"    -> "short"      \* cut into prefix/message: declared length overruns -> nothing
    [] wtam = "trunc-all"    -> IF n = 0 THEN "M" ELSE "other"   \* empty payload parses as the empty message
    [] OTHER                 -> "other"

\* TimeCryptCiphertext::decrypt + BlsTimeCrypt::unseal
OpenR(c, siglabel, sig, ra) ==
  LET labelok == siglabel = c.scheme
      s == IF labelok THEN sig ELSE GId                 \* mismatched variant: default (identity) point, is_valid = 0
      validsk == ~GIsId(s) /\ ~GIsId(c.u)
      alphaok == PairList(<< <<s, c.u>> >>) = c.vk /\ c.vtam = ""
      w == IF alphaok THEN WOutcome(c.wn, c.wtam) ELSE "other"
      recheck == alphaok /\ w = "M" /\ c.u = GScale(PAtom(ra), GenK)
  IN IF recheck /\ labelok /\ validsk THEN "Some" ELSE "None"
Open(c, siglabel, sig) == OpenR(c, siglabel, sig, "r")

\* ciphertexts a *sender* can craft from the public building blocks (hash_to_scalar, hash_to_point, pairing,
\* compute_v, compute_w) for the same key, identifier, scheme and message - opened with the right signature:
\*   alpha_noncanon   the 32 bytes of alpha are not a canonical scalar encoding (alpha is only ever hashed)  -> M
\*   len_2p64, len_2p70   the length prefix encodes 2^64 + n / 2^70 + n canonically (10 / 11 groups): the cast to the
\*                    machine word keeps n (D13, recorded deviation)                                        -> M or nothing
\*   len_19groups     nineteen continuation groups (the longest prefix the reader takes)                    -> nothing
\*   len_max_minus    a length just below the machine-word maximum (overhead + len overflows)               -> nothing
\*   len_plus1        the prefix says n + 1                                                                -> nothing
\* Every one of them returns normally (C17).
CraftShapes == {"alpha_noncanon", "len_2p64", "len_2p70", "len_19groups", "len_max_minus", "len_plus1"}
CraftOutcome(sh) == CASE sh = "alpha_noncanon" -> "M" [] sh \in {"len_2p64", "len_2p70"} -> "MorNone" [] OTHER -> "None"

\* ------------------------------------------------------------ adversary
COp(op, arg) == [op |-> op, arg |-> arg]
ApplyOp(c, o) ==
  CASE o.op = "UAddGen" -> [c EXCEPT !.u = GAdd(@, GenK)]
    [] o.op = "UNeg"    -> [c EXCEPT !.u = GNeg(@)]
    [] o.op = "UScale"  -> [c EXCEPT !.u = GMulInt(2, @)]
    [] o.op = "UId"     -> [c EXCEPT !.u = GId]
    [] o.op = "USwap"   -> [c EXCEPT !.u = GScale(PAtom("r2"), GenK)]     \* U of another ciphertext
    [] o.op = "VFlip"   -> [c EXCEPT !.vtam = @ \o "flip;"]
    [] o.op = "VSwap"   -> [c EXCEPT !.vtam = @ \o "swap;"]
    \* a sender (who knows alpha) masks it with SHA256(1_GT): the ciphertext is keyed to K = 1, which is
    \* what the pairing with an identity signature (or an identity U) evaluates to
    [] o.op = "VOne"    -> [c EXCEPT !.vk = GId]
    [] o.op = "W"       -> [c EXCEPT !.wtam = IF @ = "" THEN o.arg ELSE "multi"]
    [] o.op = "Relabel" -> [c EXCEPT !.scheme = o.arg]

WTams(n) == {"flip-prefix", "extend", "trunc-msg", "trunc-all"}
            \cup (IF n > 0 THEN {"flip-message"} ELSE {})
            \cup (IF HasPadding(n) THEN {"flip-padding", "trunc-pad"} ELSE {})
Ops(c) == {COp(x, "") : x \in {"UAddGen", "UNeg", "UScale", "UId", "USwap", "VFlip", "VSwap", "VOne"}}
          \cup {COp("W", a) : a \in WTams(c.wn)}
          \cup {COp("Relabel", s) : s \in Schemes \ {c.scheme}}

\* ------------------------------------------------------------ signatures offered to the opener
\* [k, scheme, id, route, t, n, cnt, label, how]: the signature of key k under `scheme` over `id`, made by the
\* whole key or recombined from cnt of n shares with threshold t (Basic / Pop only), presented under `label`;
\* how = "honest" | "identity" | "neg"
SigDen(sr) ==
  LET base == Sign(SkOf(sr.k), sr.scheme, DenMsg(sr.id)).v
      \* recombination of cnt <= n shares 1..cnt of a fresh deal of key k
      \* route "big": (t, n) up to 255 by subset shape, from the provenance layer alone (ThOps!IdealWhole) -
      \* enough distinct honest shares give the whole-key signature, fewer give an unrelated multiple of H(id)
      rec == IF sr.route = "whole" THEN base
             ELSE IF sr.route = "big"
             THEN (IF IdealWhole([i \in 1..Len(sr.ids) |-> [id |-> sr.ids[i], src |-> sr.ids[i], ok |-> TRUE, scheme |-> sr.scheme]], sr.t)
                   THEN base ELSE GScale(PAtom("short"), base))
             ELSE LET es == [i \in 1..sr.cnt |-> [id |-> i, src |-> i, ok |-> TRUE, scheme |-> sr.scheme]]
                  IN CombineGroup(es, [i \in 1..sr.cnt |-> GScale(ShareVal(SkOf(sr.k), "a", sr.t, i), Hs(TagOf(sr.scheme), DenMsg(sr.id)))])
  IN CASE sr.how = "identity" -> GId [] sr.how = "neg" -> GNeg(rec) [] OTHER -> rec

SR(k, s, id, route, t, n, cnt, label, how) ==
  [k |-> k, scheme |-> s, id |-> id, route |-> route, t |-> t, n |-> n, cnt |-> cnt, label |-> label, how |-> how, ids |-> <<>>]
SRBig(k, s, id, t, n, sh) == [SR(k, s, id, "big", t, n, Len(ShapeIds(sh, t, n)), s, "honest") EXCEPT !.ids = ShapeIds(sh, t, n)]

SigRecipes(c) ==
  {SR(k, s, id, "whole", 0, 0, 0, s, "honest") : k \in Keys \ {0}, s \in Schemes, id \in Ids}
  \cup {SR(c.k, c.scheme0, c.id, "whole", 0, 0, 0, lab, "honest") : lab \in Schemes}
  \cup {SR(c.k, c.scheme0, c.id, "whole", 0, 0, 0, c.scheme0, how) : how \in {"identity", "neg"}}
  \* (the same shares presented in descending order of identifier: "shares_rev")
  \cup {SR(c.k, s, c.id, "shares", tn[1], tn[2], cnt, s, "honest") :
          s \in {"Basic", "Pop"}, tn \in {x \in (2..MaxN) \X (2..MaxN) : x[1] <= x[2]}, cnt \in 2..MaxN}
  \cup {SR(c.k, s, c.id, "shares_rev", 2, MaxN, cnt, s, "honest") : s \in {"Basic", "Pop"}, cnt \in {2, MaxN}}
  \cup (IF c.wn = 5 /\ c.ops = <<>> THEN UNION {{SRBig(c.k, s, c.id, tn[1], tn[2], sh) : s \in {"Basic", "Pop"} \cap {c.scheme0}, sh \in {x \in Shapes : Len(ShapeIds(x, tn[1], tn[2])) >= 2}} : tn \in BigTN}
         ELSE {})

\* ------------------------------------------------------------ system
Quiet == [act |-> "-"]
NoCt == [u |-> GId, vk |-> GId, vtam |-> "", wn |-> 0, wtam |-> "", scheme |-> "", k |-> 0, id |-> <<>>, scheme0 |-> "", ops |-> <<>>]
CtRec(c) == [k |-> c.k, scheme0 |-> c.scheme0, id |-> c.id, n |-> c.wn, ops |-> c.ops]

Init == phase = "idle" /\ ct = NoCt /\ last = Quiet

ASeal(k, s, id, n) ==
  /\ phase = "idle"
  /\ IF k = 0
     THEN /\ last' = [act |-> "TLSeal", k |-> k, scheme |-> s, id |-> id, n |-> n, expect |-> [res |-> "Err", len |-> 0]]
          /\ ct' = NoCt /\ phase' = "judged"
     ELSE /\ ct' = Seal(PkOf(k), s, DenMsg(id), n) @@ [k |-> k, id |-> id, scheme0 |-> s, ops |-> <<>>]
          /\ last' = [act |-> "TLSeal", k |-> k, scheme |-> s, id |-> id, n |-> n, expect |-> [res |-> "Ok", len |-> FrameLen(n)]]
          /\ phase' = "made"

Bytes(c) == <<c.u, c.vk, c.vtam, c.wn, c.wtam, c.scheme>>
Touched(c) == Bytes(c) # Bytes(Seal(PkOf(c.k), c.scheme0, DenMsg(c.id), c.wn))
ATamper(o) ==
  /\ phase = "made" /\ Len(ct.ops) < Depth
  \* at most one move on each payload (two could cancel byte-wise)
  /\ (o.op = "W" => ct.wtam = "") /\ (o.op \in {"VFlip", "VSwap", "VOne"} => (ct.vtam = "" /\ ct.vk = Seal(PkOf(ct.k), ct.scheme0, DenMsg(ct.id), ct.wn).vk))
  /\ ct' = [ApplyOp(ct, o) EXCEPT !.ops = Append(@, o)]
  /\ last' = Quiet /\ UNCHANGED phase

ADecrypt(sr) ==
  /\ phase = "made" /\ (sr.route \in {"shares", "shares_rev"} => sr.cnt <= sr.n)
  /\ LET sig == SigDen(sr)
         out == Open(ct, sr.label, sig) IN
       last' = [act |-> "TLDecrypt", ct |-> CtRec(ct), sig |-> sr, expect |-> [out |-> out],
                crafts |-> IF ct.ops = <<>> /\ sr.route = "whole" /\ sr.how = "honest" /\ out = "Some"
                           THEN [sh \in CraftShapes |-> CraftOutcome(sh)] ELSE [sh \in {} |-> ""],
                touched |-> Touched(ct),
                benign |-> LET o == Seal(PkOf(ct.k), ct.scheme0, DenMsg(ct.id), ct.wn) IN
                             (ct.u = o.u /\ ct.vk = o.vk /\ ct.vtam = "" /\ ct.scheme = ct.scheme0 /\ WOutcome(ct.wn, ct.wtam) = "M"),
                rightsig |-> (/\ sr.k = ct.k /\ sr.scheme = ct.scheme0 /\ sr.id = ct.id /\ sr.label = ct.scheme0 /\ sr.how = "honest"
                              /\ (sr.route \in {"shares", "shares_rev", "big"} => sr.cnt >= sr.t)),
                hardtouched |-> LET o == Seal(PkOf(ct.k), ct.scheme0, DenMsg(ct.id), ct.wn) IN
                                  (ct.u # o.u \/ ct.vk # o.vk \/ ct.vtam # "" \/ WOutcome(ct.wn, ct.wtam) # "M"),
                relabelled |-> (ct.scheme # ct.scheme0), curlabel |-> ct.scheme,
                idpt |-> (GIsId(sig) \/ GIsId(ct.u))]
  /\ phase' = "judged" /\ UNCHANGED ct

AReset == phase = "judged" /\ phase' = "idle" /\ ct' = NoCt /\ last' = Quiet

Next ==
  \/ (phase = "idle" /\ \E k \in Keys, s \in Schemes, id \in Ids, n \in Lens : ASeal(k, s, id, n))
  \/ (phase = "made" /\ \E o \in Ops(ct) : ATamper(o))
  \/ (phase = "made" /\ \E sr \in SigRecipes(ct) : ADecrypt(sr))
  \/ AReset

Spec == Init /\ [][Next]_vars

\* ------------------------------------------------------------ properties (C13)
Judged(a) == last.act = a
\* opens with exactly the signature over (identifier, key, scheme), whole or recombined
OpensExactly == (Judged("TLDecrypt") /\ ~last.touched /\ last.rightsig) => last.expect.out = "Some"
\* another identifier / key / scheme / label, an identity or negated signature, or fewer than t shares: nothing
OnlyRightSig == (Judged("TLDecrypt") /\ last.expect.out = "Some" /\ last.sig.label = last.sig.scheme) => last.rightsig
\* header or authenticated payload altered => nothing; only padding / extension may still open (to M)
TamperNothing == (Judged("TLDecrypt") /\ last.hardtouched) => last.expect.out = "None"
\* the scheme label is not authenticated by the construction, but with a genuine signature (one
\* whose label is the scheme it was made under) a relabelled ciphertext never opens
RelabelNothing == (Judged("TLDecrypt") /\ last.relabelled /\ last.sig.label = last.sig.scheme) => last.expect.out = "None"
\* exact characterisation (mechanical = ideal): it opens iff header and authenticated payload are
\* intact, the presented point is the one signature over (identifier, key, sealing scheme), it is
\* presented under the ciphertext's current label, and enough shares went into it
OpensIff == Judged("TLDecrypt") =>
   ((last.expect.out = "Some") <=>
      (/\ ~last.hardtouched
       /\ last.sig.k = last.ct.k /\ last.sig.id = last.ct.id /\ last.sig.scheme = last.ct.scheme0 /\ last.sig.how = "honest"
       /\ last.sig.label = last.curlabel
       /\ (last.sig.route \in {"shares", "shares_rev", "big"} => last.sig.cnt >= last.sig.t)))
BenignStillOpens == (Judged("TLDecrypt") /\ last.touched /\ last.benign /\ last.rightsig) => last.expect.out = "Some"
\* C04
NoIdentity == (Judged("TLDecrypt") /\ last.idpt) => last.expect.out = "None"
SealRefusesIdentityKey == Judged("TLSeal") => ((last.expect.res = "Err") <=> (last.k = 0))

EmitVec == (Emit /\ last.act # "-") => PrintT(<<"VEC", ToJson([spec |-> "TimeLock"] @@ last)>>)
TypeOK == phase \in {"idle", "made", "judged"}
=============================================================================
