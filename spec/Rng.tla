-------------------------------- MODULE Rng --------------------------------
(***************************************************************************)
(* Randomness of the randomized entry points.  Serves C20.                 *)
(*   src/helpers.rs get_crypto_rng (ChaCha20Rng::from_entropy per call),   *)
(*   and its callers: SecretKey::new / split, PublicKey::sign_crypt,       *)
(*   encrypt_time_lock, encrypt_key_el_gamal(_with_proof),                 *)
(*   ProofCommitment::generate, ProofOfKnowledgeTimestamp::generate,       *)
(*   ProofCommitmentChallenge::new                                         *)
(*                                                                         *)
(* Processes run threads; a thread performs calls; each call obtains a     *)
(* generator object and draws its ephemerals from it; threads interleave   *)
(* at every step.  How a generator gets its seed is the constant `Mode`:   *)
(*   "entropy"      a seed from the OS pool, never handed out twice - what *)
(*                  the code does                                          *)
(*   "clock"        the seed is the clock reading (two calls in one tick   *)
(*                  collide) - faulty variant, negative control            *)
(*   "static"       one process-wide generator advanced without exclusion  *)
(*                  (read and write-back are separate steps) - faulty      *)
(*   "threadlocal"  process-wide seed, per-thread stream counter - faulty  *)
(*   "fork"         a child process starts from a copy of its parent's     *)
(*                  generator - faulty                                     *)
(*   "cloned"       a generator seeded once per process and handed out as  *)
(*                  a *copy* that is never advanced (a `static` /          *)
(*                  thread-local `rng.clone()`) - faulty: every call of    *)
(*                  the process starts from the same state                 *)
(*   "hedged"       no generator at all: the "nonce" is a hash of the      *)
(*                  call's inputs, so two calls with equal inputs draw the *)
(*                  same value (harness calls have equal inputs) - faulty  *)
(* An ephemeral is <<seed, stream, index>>; NoReuse says no ephemeral is   *)
(* ever output twice.                                                      *)
(***************************************************************************)
EXTENDS Naturals, Sequences, FiniteSets, TLC

CONSTANTS Procs, Threads, Calls, Draws, Mode

VARIABLES pool,      \* next unused OS-entropy seed
          clock,     \* clock reading (advances nondeterministically)
          pseed,     \* per-process seed (modes static / threadlocal / fork)
          shared,    \* per-process shared generator position (mode static)
          tcount,    \* per-thread stream counter (mode threadlocal)
          pc,        \* per-thread program counter: [calls done, state, gen, draws done, tmp]
          outputs    \* the bag of ephemerals output so far (as a sequence)
vars == <<pool, clock, pseed, shared, tcount, pc, outputs>>

PT == Procs \X Threads
Idle(n) == [n |-> n, st |-> "idle", gen |-> <<0, 0>>, d |-> 0, tmp |-> 0]

Init == /\ pool = 1 /\ clock = 0
        /\ pseed = [p \in Procs |-> IF Mode = "fork" THEN 1 ELSE p]     \* fork: every child inherits the parent's seed
        /\ shared = [p \in Procs |-> 0]
        /\ tcount = [x \in PT |-> 0]
        /\ pc = [x \in PT |-> Idle(0)]
        /\ outputs = <<>>

\* obtain a generator for a call: <<seed, stream>>
BeginCall(x) ==
  /\ pc[x].st = "idle" /\ pc[x].n < Calls
  /\ CASE Mode = "entropy" ->
            /\ pc' = [pc EXCEPT ![x] = [@ EXCEPT !.st = "drawing", !.gen = <<100 + pool, 0>>, !.d = 0]]
            /\ pool' = pool + 1 /\ UNCHANGED <<tcount, shared>>
       [] Mode = "clock" ->
            /\ pc' = [pc EXCEPT ![x] = [@ EXCEPT !.st = "drawing", !.gen = <<200 + clock, 0>>, !.d = 0]]
            /\ UNCHANGED <<pool, tcount, shared>>
       [] Mode \in {"threadlocal", "fork"} ->
            /\ pc' = [pc EXCEPT ![x] = [@ EXCEPT !.st = "drawing", !.gen = <<300 + pseed[x[1]], tcount[x]>>, !.d = 0]]
            /\ tcount' = [tcount EXCEPT ![x] = @ + 1] /\ UNCHANGED <<pool, shared>>
       [] Mode = "cloned" ->
            /\ pc' = [pc EXCEPT ![x] = [@ EXCEPT !.st = "drawing", !.gen = <<500 + pseed[x[1]], 0>>, !.d = 0]]
            /\ UNCHANGED <<pool, tcount, shared>>
       [] Mode = "hedged" ->
            /\ pc' = [pc EXCEPT ![x] = [@ EXCEPT !.st = "drawing", !.gen = <<600, 0>>, !.d = 0]]
            /\ UNCHANGED <<pool, tcount, shared>>
       [] Mode = "static" ->
            \* read the shared position now, write it back in EndCall: no exclusion
            /\ pc' = [pc EXCEPT ![x] = [@ EXCEPT !.st = "drawing", !.gen = <<400 + pseed[x[1]], shared[x[1]]>>, !.d = 0, !.tmp = shared[x[1]]]]
            /\ UNCHANGED <<pool, tcount, shared>>
  /\ UNCHANGED <<clock, pseed, outputs>>

Draw(x) ==
  /\ pc[x].st = "drawing" /\ pc[x].d < Draws
  /\ outputs' = Append(outputs, <<pc[x].gen[1], pc[x].gen[2], pc[x].d>>)
  /\ pc' = [pc EXCEPT ![x] = [@ EXCEPT !.d = @ + 1]]
  /\ UNCHANGED <<pool, clock, pseed, shared, tcount>>

EndCall(x) ==
  /\ pc[x].st = "drawing" /\ pc[x].d = Draws
  /\ pc' = [pc EXCEPT ![x] = Idle(pc[x].n + 1)]
  /\ shared' = IF Mode = "static" THEN [shared EXCEPT ![x[1]] = pc[x].tmp + 1] ELSE shared
  /\ UNCHANGED <<pool, clock, pseed, tcount, outputs>>

Tick == clock < 2 /\ clock' = clock + 1 /\ UNCHANGED <<pool, pseed, shared, tcount, pc, outputs>>

Next == \/ \E x \in PT : BeginCall(x) \/ Draw(x) \/ EndCall(x)
        \/ Tick
Spec == Init /\ [][Next]_vars

\* C20: no ephemeral value is ever output twice - within a thread, across threads, across processes
NoReuse == \A i, j \in 1..Len(outputs) : i # j => outputs[i] # outputs[j]
\* every call works on a generator no other call has
FreshGenerators == \A x, y \in PT : (x # y /\ pc[x].st = "drawing" /\ pc[y].st = "drawing") => pc[x].gen # pc[y].gen
TypeOK == pool >= 1
=============================================================================
