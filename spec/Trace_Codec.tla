---------------------------- MODULE Trace_Codec ----------------------------
(***************************************************************************)
(* implementation -> spec for the decoders: the harness feeds random and   *)
(* structure-aware mutated inputs to every decoder of every type, executes *)
(* all of them, and logs one event per distinct                            *)
(* (type, codec, input class, outcome, independent judgement) with a count.*)
(* The outcome of the Codec decoder is a function of the class alone, so a *)
(* few thousand events stand for millions of executions; an input whose    *)
(* outcome differs from its class-mates produces a second, distinct event, *)
(* which is rejected here.                                                 *)
(***************************************************************************)
EXTENDS Layout, Json, IOUtils, TLCExt

Rec == ndJsonDeserialize(IOEnv.TRACE)
VARIABLE l

IsEvent(e) == l <= Len(Rec) /\ Rec[l].ev = e /\ l' = l + 1

TReset == IsEvent("Reset")

\* C17: never an abort.  C16: a value is returned only if every eagerly validated point is a
\* valid subgroup point; truncated input is rejected; byte-imported secrets are never zero.
TDecode ==
  /\ IsEvent("Decode")
  /\ LET e == Rec[l] IN
       /\ e.type \in AllTypes
       /\ e.res \in {"Ok", "Err"}
       /\ e.count > 0
       /\ (e.res = "Ok" /\ ~Types[e.type].lazy) => e.points \in {"valid", "-"}
       /\ (e.res = "Ok" /\ HasKind(e.type, PointKinds) /\ ~Types[e.type].lazy) => e.points = "valid"
       /\ (e.class = "truncated") => e.res = "Err"
       /\ (e.res = "Ok" /\ e.codec = "bytes" /\ Types[e.type].secret) => ~e.zero
       /\ (e.class = "extended" /\ e.codec = "bytes" /\ Types[e.type].exact) => e.res = "Err"
       /\ (e.class = "extended" /\ e.codec = "json") => e.res = "Err"

\* C15: a value of any type, variant and value class comes back equal from every codec and container form
TRoundTrip ==
  /\ IsEvent("RoundTrip")
  /\ LET e == Rec[l] IN e.type \in AllTypes /\ e.variant \in Types[e.type].variants /\ e.res = "same" /\ e.count > 0

TraceInit == l = 1
TraceNext == TReset \/ TDecode \/ TRoundTrip
TraceSpec == TraceInit /\ [][TraceNext]_l
TraceAccepted ==
  LET d == TLCGet("stats").diameter IN
    IF d - 1 = Len(Rec) THEN TRUE
    ELSE Print(<<"TRACE-REJECTED at event", d, IF d <= Len(Rec) THEN ToJson(Rec[d]) ELSE "-">>, FALSE)
=============================================================================
