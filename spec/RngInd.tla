------------------------------ MODULE RngInd ------------------------------
(***************************************************************************)
(* Inductive form of Rng!NoReuse for the seeding discipline the code uses  *)
(* (Mode = "entropy": a fresh OS seed per call), checked by Apalache for   *)
(* an unbounded number of calls, draws per call and steps: N threads (the  *)
(* process structure is irrelevant once seeds come from one pool).         *)
(*   apalache-mc check --init=Init    --inv=IndInv --length=0 RngInd.tla   *)
(*   apalache-mc check --init=IndInit --inv=IndInv --length=1 RngInd.tla   *)
(*   apalache-mc check --init=IndInit --inv=NoReuse --length=0 RngInd.tla  *)
(***************************************************************************)
EXTENDS Integers, FiniteSets, Apalache

CONSTANT
  \* @type: Int;
  N

VARIABLES
  \* @type: Int;
  pool,
  \* @type: Int -> Bool;
  drawing,
  \* @type: Int -> Int;
  seed,
  \* @type: Int -> Int;
  done,
  \* @type: Set(<<Int, Int>>);
  drawn,
  \* @type: Bool;
  dup

Threads == 1..N

ConstInit == N = 3

Init ==
  /\ pool = 1
  /\ drawing = [t \in Threads |-> FALSE]
  /\ seed = [t \in Threads |-> 0]
  /\ done = [t \in Threads |-> 0]
  /\ drawn = {}
  /\ dup = FALSE

BeginCall(t) ==
  /\ ~drawing[t]
  /\ drawing' = [drawing EXCEPT ![t] = TRUE]
  /\ seed' = [seed EXCEPT ![t] = pool]
  /\ done' = [done EXCEPT ![t] = 0]
  /\ pool' = pool + 1
  /\ UNCHANGED <<drawn, dup>>

Draw(t) ==
  /\ drawing[t]
  /\ dup' = (dup \/ <<seed[t], done[t]>> \in drawn)
  /\ drawn' = drawn \union {<<seed[t], done[t]>>}
  /\ done' = [done EXCEPT ![t] = done[t] + 1]
  /\ UNCHANGED <<pool, drawing, seed>>

EndCall(t) ==
  /\ drawing[t]
  /\ drawing' = [drawing EXCEPT ![t] = FALSE]
  /\ UNCHANGED <<pool, seed, done, drawn, dup>>

Next == \E t \in Threads : BeginCall(t) \/ Draw(t) \/ EndCall(t)

\* the property: no ephemeral <<seed, index>> is ever output twice
NoReuse == ~dup

IndInv ==
  /\ ~dup
  /\ pool >= 1
  /\ \A t \in Threads : done[t] >= 0 /\ seed[t] >= 0 /\ seed[t] < pool
  \* generators in use are pairwise distinct
  /\ \A t, u \in Threads : (t /= u /\ drawing[t] /\ drawing[u]) => seed[t] /= seed[u]
  \* everything output so far comes from a seed already handed out ...
  /\ \A o \in drawn : o[1] >= 1 /\ o[1] < pool /\ o[2] >= 0
  \* ... and what a generator in use has output is exactly the indices below its position
  /\ \A t \in Threads : drawing[t] => (\A o \in drawn : o[1] = seed[t] => o[2] < done[t])
  /\ \A t \in Threads : drawing[t] => seed[t] >= 1

\* all states satisfying the type constraints and the invariant
\* (integers are unbounded; `drawn` is an arbitrary set of at most 4 pairs of arbitrary integers - a counterexample
\* to inductiveness needs at most two of its elements, IndInv being universally quantified over it)
IndInit ==
  /\ pool \in Int
  /\ drawing \in [Threads -> BOOLEAN]
  /\ seed \in [Threads -> Int]
  /\ done \in [Threads -> Int]
  /\ drawn = Gen(4)
  /\ dup \in BOOLEAN
  /\ IndInv
=============================================================================
