------------------------------ MODULE SigNet ------------------------------
(***************************************************************************)
(* The signature ecosystem: signers, an algebraic adversary, an aggregator *)
(* and verifiers exchanging keys, signatures, proofs of possession,        *)
(* aggregates and multi-signatures.  Serves C01 C02 C03 C04 C05 C06 C07    *)
(* C09.                                                                    *)
(*                                                                         *)
(* Layer 1 (mechanical): every public operation of blsful as the code      *)
(*   computes it - guards in source order, then the formula.               *)
(*   src/traits/sig_core.rs, sig_basic.rs, sig_aug.rs, sig_pop.rs,         *)
(*   src/signature.rs, aggregate_signature.rs, multi_signature.rs,         *)
(*   multi_public_key.rs, proof_of_possession.rs                           *)
(* Layer 2 (ideal): what the properties say, in terms of the unique        *)
(*   element / provenance.  The invariants are "mechanical = ideal".       *)
(* Layer 3 (system): episodes  make -> tamper* -> judge -> reset ; every   *)
(*   transition that calls the library leaves a self-contained vector in   *)
(*   `last` which TLC prints and the harness replays on the real code.     *)
(***************************************************************************)
EXTENDS SigOps, Json

CONSTANTS Keys,        \* set of integer secret keys (0 = the zero key, -1 = r-1)
          MsgRs,       \* set of message recipes (sequences of [c,k] chunks)
          Modes,       \* subset of {"single","pop","agg","multi"}: which episodes run
          Depth,       \* max number of adversary derivations per artefact
          AggN,        \* max list length for aggregate / multi episodes
          Emit         \* TRUE: print one JSON vector per library-calling transition

VARIABLES phase, art, last
vars == <<phase, art, last>>

\* ------------------------------------------------- adversary derivations
\* signature op: [op, n, s, k, m]   pk op: [op, n, k]
SigOp(op, n, s, k, m) == [op |-> op, n |-> n, s |-> s, k |-> k, m |-> m]
PkOp(op, n, k) == [op |-> op, n |-> n, k |-> k]

ApplySigOp(a, o) ==   \* a = [scheme, den]
  CASE o.op = "Neg"      -> [scheme |-> a.scheme, den |-> GNeg(a.den)]
    [] o.op = "AddGen"   -> [scheme |-> a.scheme, den |-> GAdd(a.den, GMulInt(o.n, GenS))]
    [] o.op = "Scale"    -> [scheme |-> a.scheme, den |-> GMulInt(o.n, a.den)]
    [] o.op = "Relabel"  -> [scheme |-> o.s, den |-> a.den]
    [] o.op = "Identity" -> [scheme |-> a.scheme, den |-> GId]
    [] o.op = "AddSig"   -> [scheme |-> a.scheme, den |-> GAdd(a.den, Sign(SkOf(o.k), o.s, DenMsg(o.m)).v)]

ApplyPkOp(p, o) ==
  CASE o.op = "Neg"      -> GNeg(p)
    [] o.op = "AddGen"   -> GAdd(p, GMulInt(o.n, GenK))
    [] o.op = "AddKey"   -> GAdd(p, PkOf(o.k))
    [] o.op = "Identity" -> GId

RECURSIVE ApplyPkOps(_,_)
ApplyPkOps(p, ops) == IF ops = <<>> THEN p ELSE ApplyPkOps(ApplyPkOp(p, Head(ops)), Tail(ops))
DenPk(pr) == ApplyPkOps(PkOf(pr.k), pr.ops)       \* pk recipe = [k, ops]

NZKeys == Keys \ {0}
SigOps == {SigOp("Neg", 0, "", 0, <<>>), SigOp("Identity", 0, "", 0, <<>>)}
          \cup {SigOp("AddGen", n, "", 0, <<>>) : n \in {1}}
          \cup {SigOp("Scale", n, "", 0, <<>>) : n \in {2}}
          \cup {SigOp("Relabel", 0, s, 0, <<>>) : s \in Schemes}
          \cup {SigOp("AddSig", 0, s, k, m) : s \in Schemes, k \in NZKeys, m \in MsgRs}
PkOps  == {PkOp("Neg", 0, 0), PkOp("Identity", 0, 0), PkOp("AddGen", 1, 0)}
          \cup {PkOp("AddKey", 0, k) : k \in NZKeys}
PkRs   == {[k |-> k, ops |-> <<>>] : k \in NZKeys}
          \cup {[k |-> k, ops |-> <<o>>] : k \in NZKeys, o \in PkOps}

\* ------------------------------------------------------------- vectors
Quiet == [act |-> "-"]
NoArt == [kind |-> "none"]
ResOf(r) == [res |-> r.t, err |-> r.e]
HDesc(scheme) == [tag |-> TagOf(scheme), pre |-> HashPre(scheme)]
SigBase(k, s, mr) == [k |-> k, scheme |-> s, msg |-> mr, h |-> HDesc(s)]

Init == phase = "idle" /\ art = NoArt /\ last = Quiet

\* ---- single-signature episode (C01 C02 C04 C05) ----
ASign(k, s, mr) ==
  /\ phase = "idle" /\ "single" \in Modes
  /\ LET r == Sign(SkOf(k), s, DenMsg(mr)) IN
     /\ last' = [act |-> "Sign", k |-> k, scheme |-> s, msg |-> mr, h |-> HDesc(s), expect |-> ResOf(r.r)]
     /\ IF IsOk(r.r)
        THEN /\ art' = [kind |-> "sig", scheme |-> s, den |-> r.v, k |-> k, m |-> mr,
                        rec |-> [base |-> SigBase(k, s, mr), ops |-> <<>>]]
             /\ phase' = "made"
        ELSE art' = NoArt /\ phase' = "judged"

ATamperSig(o) ==
  /\ phase = "made" /\ art.kind = "sig" /\ Len(art.rec.ops) < Depth
  /\ LET a == ApplySigOp([scheme |-> art.scheme, den |-> art.den], o) IN
       art' = [art EXCEPT !.scheme = a.scheme, !.den = a.den, !.rec.ops = Append(@, o)]
  /\ last' = Quiet /\ UNCHANGED phase

AVerify(pr, mr) ==
  /\ phase = "made" /\ art.kind = "sig"
  /\ LET pk == DenPk(pr)
         r  == Verify(pk, art.scheme, art.den, DenMsg(mr)) IN
       last' = [act |-> "Verify", pk |-> pr, sig |-> art.rec, label |-> art.scheme, msg |-> mr,
                h |-> HDesc(art.scheme), expect |-> ResOf(r),
                honest |-> (art.rec.ops = <<>> /\ pr = [k |-> art.k, ops |-> <<>>] /\ mr = art.m),
                ideal |-> IdealVerify(pk, art.scheme, art.den, DenMsg(mr)),
                idpk |-> GIsId(pk), idsig |-> GIsId(art.den)]
  /\ phase' = "judged" /\ UNCHANGED art

\* ---- key derivation (C03): KeyGen of draft-irtf-cfrg-bls-signature 2.3 for a seed of n bytes ----
\*   sk = OS2IP(HKDF-Expand(HKDF-Extract(salt "BLS-SIG-KEYGEN-SALT-", IKM || I2OSP(0,1)), I2OSP(48,2), 48)) mod r
SeedLens == {0, 1, 31, 32, 33, 1024}
AKeyGen(n, how) ==
  /\ phase = "idle" /\ "keygen" \in Modes
  /\ last' = [act |-> "KeyGen", seedlen |-> n, how |-> how, salt |-> "KEYGEN", l |-> KeyGenL, expect |-> [res |-> "Ok", err |-> ""]]
  /\ art' = NoArt /\ phase' = "judged"

\* ---- proof-of-possession episode (C09 C05 C04) ----
APopProve(k) ==
  /\ phase = "idle" /\ "pop" \in Modes
  /\ LET r == PopProve(SkOf(k)) IN
     /\ last' = [act |-> "PopProve", k |-> k, expect |-> ResOf(r.r)]
     /\ IF IsOk(r.r)
        THEN /\ art' = [kind |-> "pop", scheme |-> "PopProof", den |-> r.v, k |-> k, m |-> <<>>,
                        rec |-> [base |-> [k |-> k, scheme |-> "PopProof", msg |-> <<>>, h |-> [tag |-> "POPPROOF", pre |-> "pkonly"]],
                                 ops |-> <<>>]]
             /\ phase' = "made"
        ELSE art' = NoArt /\ phase' = "judged"

\* a signature over the public-key bytes under scheme s, presented as a proof of possession
ASigAsPop(k, s) ==
  /\ phase = "idle" /\ "pop" \in Modes /\ k # 0
  /\ LET mr == <<[c |-> "pk", k |-> k]>>
         r  == Sign(SkOf(k), s, DenMsg(mr)) IN
     /\ art' = [kind |-> "pop", scheme |-> "PopProof", den |-> r.v, k |-> k, m |-> <<>>,
                rec |-> [base |-> SigBase(k, s, mr), ops |-> <<SigOp("AsPop", 0, "", 0, <<>>)>>]]
     /\ last' = Quiet /\ phase' = "made"

ATamperPop(o) ==
  /\ phase = "made" /\ art.kind = "pop" /\ Len(art.rec.ops) < Depth
  /\ o.op \in {"Neg", "AddGen", "Scale", "Identity"}
  /\ art' = [art EXCEPT !.den = ApplySigOp([scheme |-> "", den |-> art.den], o).den, !.rec.ops = Append(@, o)]
  /\ last' = Quiet /\ UNCHANGED phase

APopVerify(pr) ==
  /\ phase = "made" /\ art.kind = "pop"
  /\ LET pk == DenPk(pr)
         r  == PopVerify(pk, art.den) IN
       last' = [act |-> "PopVerify", pk |-> pr, proof |-> art.rec, expect |-> ResOf(r),
                honest |-> (art.rec.ops = <<>> /\ pr = [k |-> art.k, ops |-> <<>>]),
                ideal |-> (~GIsId(pk) /\ ~GIsId(art.den) /\ art.den = IdealPop(pk)),
                idpk |-> GIsId(pk), idsig |-> GIsId(art.den)]
  /\ phase' = "judged" /\ UNCHANGED art

\* a proof of possession presented as a signature with label s over the public-key bytes
APopAsSig(pr, s) ==
  /\ phase = "made" /\ art.kind = "pop" /\ art.rec.ops = <<>>
  /\ LET pk == DenPk(pr)
         mr == <<[c |-> "pk", k |-> art.k]>>
         r  == Verify(pk, s, art.den, DenMsg(mr)) IN
       last' = [act |-> "Verify", pk |-> pr,
                sig |-> [base |-> art.rec.base, ops |-> <<SigOp("AsSig", 0, s, 0, <<>>)>>],
                label |-> s, msg |-> mr, h |-> HDesc(s), expect |-> ResOf(r), honest |-> FALSE,
                ideal |-> IdealVerify(pk, s, art.den, DenMsg(mr)),
                idpk |-> GIsId(pk), idsig |-> GIsId(art.den)]
  /\ phase' = "judged" /\ UNCHANGED art

\* ---- aggregate episode (C06 C04) ----
\* signers = sequence of [k, s, m]; the aggregate is built from their honest signatures
\* (all of one scheme s; mixed-scheme lists are enumerated separately by AAggregateMixed)
Signers(n, s) == [1..n -> [k : NZKeys, s : {s}, m : MsgRs]]
SigsOf(sg) == [i \in 1..Len(sg) |-> [scheme |-> sg[i].s, den |-> Sign(SkOf(sg[i].k), sg[i].s, DenMsg(sg[i].m)).v]]
SigRecs(sg) == [i \in 1..Len(sg) |-> [base |-> SigBase(sg[i].k, sg[i].s, sg[i].m), ops |-> <<>>]]

AAggregate(sg) ==
  /\ phase = "idle" /\ "agg" \in Modes
  /\ LET r == Aggregate(SigsOf(sg)) IN
     /\ last' = [act |-> "Aggregate", sigs |-> SigRecs(sg), expect |-> ResOf(r.r)]
     /\ IF IsOk(r.r)
        THEN /\ art' = [kind |-> "agg", scheme |-> r.scheme, den |-> r.v, sg |-> sg]
             /\ phase' = "made"
        ELSE art' = NoArt /\ phase' = "judged"

\* refusal of mixed-scheme / too-short lists: every scheme list of length 0..AggN over one key and message
SchemeLists == UNION {[1..n -> Schemes] : n \in 0..AggN}
MixedSigners(sl) == [i \in 1..Len(sl) |-> [k |-> CHOOSE k \in NZKeys : TRUE, s |-> sl[i], m |-> CHOOSE m \in MsgRs : m # <<>>]]
AAggregateMixed(sl) ==
  /\ phase = "idle" /\ "agg" \in Modes
  /\ LET sg == MixedSigners(sl)
         r  == Aggregate(SigsOf(sg)) IN
       last' = [act |-> "Aggregate", sigs |-> SigRecs(sg), expect |-> ResOf(r.r)]
  /\ art' = NoArt /\ phase' = "judged"
AAccumulateMixed(sl) ==
  /\ phase = "idle" /\ "multi" \in Modes
  /\ LET sg == MixedSigners(sl)
         r  == Accumulate(SigsOf(sg)) IN
       last' = [act |-> "Accumulate", sigs |-> SigRecs(sg), expect |-> ResOf(r.r), plain |-> TRUE]
  /\ art' = NoArt /\ phase' = "judged"

\* pair-list recipes: sequence of [pk |-> pk recipe, m |-> msg recipe]
HonestPairs(sg) == [i \in 1..Len(sg) |-> [pk |-> [k |-> sg[i].k, ops |-> <<>>], m |-> sg[i].m]]
DenPairs(ps)    == [i \in 1..Len(ps) |-> [pk |-> DenPk(ps[i].pk), m |-> DenMsg(ps[i].m)]]
InsertPair(s, p, e) == [i \in 1..(Len(s) + 1) |-> IF i < p THEN s[i] ELSE IF i = p THEN e ELSE s[i - 1]]
RemoveAt(s, i)  == [j \in 1..(Len(s)-1) |-> IF j < i THEN s[j] ELSE s[j+1]]
SwapMsgs(s, i, j) == [x \in 1..Len(s) |-> IF x = i THEN [s[i] EXCEPT !.m = s[j].m]
                                          ELSE IF x = j THEN [s[j] EXCEPT !.m = s[i].m] ELSE s[x]]
Reverse(s) == [i \in 1..Len(s) |-> s[Len(s) + 1 - i]]
Rotate(s)  == [i \in 1..Len(s) |-> s[(i % Len(s)) + 1]]

Perturbations(ps) ==
  {[how |-> "none", at |-> 0, ps |-> ps], [how |-> "reverse", at |-> 0, ps |-> Reverse(ps)],
   [how |-> "rotate", at |-> 0, ps |-> Rotate(ps)]}
  \cup {[how |-> "altermsg", at |-> i, ps |-> [ps EXCEPT ![i].m = m]] : i \in 1..Len(ps), m \in MsgRs}
  \cup {[how |-> "alterkey", at |-> i, ps |-> [ps EXCEPT ![i].pk = [k |-> k, ops |-> <<>>]]] : i \in 1..Len(ps), k \in NZKeys}
  \cup {[how |-> "idkey", at |-> i, ps |-> [ps EXCEPT ![i].pk.ops = <<PkOp("Identity", 0, 0)>>]] : i \in 1..Len(ps)}
  \* an identity key *added* to an otherwise complete list: the pairing product is unchanged (e(H, 0) = 1),
  \* so only the per-entry guard can refuse it - at every position, the last one included
  \cup {[how |-> "addid", at |-> p, ps |-> InsertPair(ps, p, [pk |-> [k |-> ps[1].pk.k, ops |-> <<PkOp("Identity", 0, 0)>>], m |-> m])] : p \in 1..(Len(ps) + 1), m \in MsgRs}
  \cup {[how |-> "drop", at |-> i, ps |-> RemoveAt(ps, i)] : i \in 1..Len(ps)}
  \cup {[how |-> "add", at |-> Len(ps) + 1, ps |-> Append(ps, [pk |-> [k |-> k, ops |-> <<>>], m |-> m])] : k \in NZKeys, m \in MsgRs}
  \cup {[how |-> "swapmsg", at |-> i, ps |-> SwapMsgs(ps, i, j)] : i \in 1..Len(ps), j \in 1..Len(ps)}

AAggVerify(pt) ==
  /\ phase = "made" /\ art.kind = "agg"
  /\ pt \in Perturbations(HonestPairs(art.sg))
  /\ LET dp == DenPairs(pt.ps)
         r  == AggVerify(dp, art.scheme, art.den) IN
       last' = [act |-> "AggVerify", sigs |-> SigRecs(art.sg), scheme |-> art.scheme, pairs |-> pt.ps,
                how |-> pt.how, at |-> pt.at, h |-> HDesc(art.scheme), expect |-> ResOf(r),
                ideal |-> IdealAggVerify(dp, art.scheme, art.den),
                sameset |-> (\A x \in {dp[i] : i \in 1..Len(dp)} \cup {DenPairs(HonestPairs(art.sg))[i] : i \in 1..Len(art.sg)} :
                               Cardinality({i \in 1..Len(dp) : dp[i] = x}) =
                               Cardinality({i \in 1..Len(art.sg) : DenPairs(HonestPairs(art.sg))[i] = x})),
                dupmsg |-> (\E i, j \in 1..Len(dp) : i < j /\ dp[i].m = dp[j].m),
                idsig |-> GIsId(art.den)]
  /\ phase' = "judged" /\ UNCHANGED art

\* ---- multi-signature episode (C07 C04) ----
AAccumulate(sg) ==
  /\ phase = "idle" /\ "multi" \in Modes
  /\ LET r == Accumulate(SigsOf(sg)) IN
     /\ last' = [act |-> "Accumulate", sigs |-> SigRecs(sg), expect |-> ResOf(r.r),
                 plain |-> TRUE]     \* result must equal the plain group sum of the parts
     /\ IF IsOk(r.r) /\ \A i \in 1..Len(sg) : sg[i].m = sg[1].m
        THEN /\ art' = [kind |-> "multi", scheme |-> r.scheme, den |-> r.v, sg |-> sg]
             /\ phase' = "made"
        ELSE art' = NoArt /\ phase' = "judged"

KeyLists == UNION {[1..n -> NZKeys] : n \in 1..AggN}

AMultiVerify(ks, mr) ==
  /\ phase = "made" /\ art.kind = "multi"
  /\ LET mpk == MultiKey([i \in 1..Len(ks) |-> PkOf(ks[i])])
         r   == Verify(mpk, art.scheme, art.den, DenMsg(mr))
         signers == [i \in 1..Len(art.sg) |-> art.sg[i].k] IN
       last' = [act |-> "MultiVerify", sigs |-> SigRecs(art.sg), scheme |-> art.scheme, keys |-> ks, msg |-> mr,
                h |-> HDesc(art.scheme), expect |-> ResOf(r),
                ideal |-> IdealVerify(mpk, art.scheme, art.den, DenMsg(mr)),
                samekeys |-> (\A k \in NZKeys : Cardinality({i \in 1..Len(ks) : ks[i] = k}) =
                                               Cardinality({i \in 1..Len(signers) : signers[i] = k})),
                samemsg |-> (mr = art.sg[1].m),
                idpk |-> GIsId(mpk), idsig |-> GIsId(art.den)]
  /\ phase' = "judged" /\ UNCHANGED art

AReset == phase = "judged" /\ phase' = "idle" /\ art' = NoArt /\ last' = Quiet

Next ==
  \/ (phase = "idle" /\ "single" \in Modes /\ \E k \in Keys, s \in Schemes, mr \in MsgRs : ASign(k, s, mr))
  \/ (phase = "made" /\ art.kind = "sig" /\ \E o \in SigOps : ATamperSig(o))
  \/ (phase = "made" /\ art.kind = "sig" /\ \E pr \in PkRs, mr \in MsgRs : AVerify(pr, mr))
  \/ (phase = "idle" /\ "keygen" \in Modes /\ \E n \in SeedLens, how \in {"from_hash", "facade_from_hash", "enum_from_hash", "random_seeded", "facade_random_seeded"} : AKeyGen(n, how))
  \/ (phase = "idle" /\ "pop" \in Modes /\ \E k \in Keys : APopProve(k))
  \/ (phase = "idle" /\ "pop" \in Modes /\ \E k \in NZKeys, s \in Schemes : ASigAsPop(k, s))
  \/ (phase = "made" /\ art.kind = "pop" /\ \E o \in SigOps : ATamperPop(o))
  \/ (phase = "made" /\ art.kind = "pop" /\ \E pr \in PkRs : APopVerify(pr))
  \/ (phase = "made" /\ art.kind = "pop" /\ \E pr \in PkRs, s \in Schemes : APopAsSig(pr, s))
  \/ (phase = "idle" /\ "agg" \in Modes /\ \E n \in 2..AggN, s \in Schemes : \E sg \in Signers(n, s) : AAggregate(sg))
  \/ (phase = "idle" /\ "agg" \in Modes /\ \E sl \in SchemeLists : AAggregateMixed(sl))
  \/ (phase = "idle" /\ "multi" \in Modes /\ \E sl \in SchemeLists : AAccumulateMixed(sl))
  \/ (phase = "made" /\ art.kind = "agg" /\ \E pt \in Perturbations(HonestPairs(art.sg)) : AAggVerify(pt))
  \/ (phase = "idle" /\ "multi" \in Modes /\ \E n \in 2..AggN, s \in Schemes \ {"Aug"} : \E sg \in Signers(n, s) : AAccumulate(sg))
  \/ (phase = "made" /\ art.kind = "multi" /\ \E ks \in KeyLists, mr \in MsgRs : AMultiVerify(ks, mr))
  \/ AReset

Spec == Init /\ [][Next]_vars

\* ------------------------------------------------------------- properties
Judged(a) == last.act = a

\* C01: every honest signature verifies; signing with a non-zero key succeeds
Complete ==
  /\ (Judged("Sign") /\ last.k # 0) => last.expect.res = "Ok"
  /\ (Judged("Verify") /\ last.honest) => last.expect.res = "Ok"
  /\ (Judged("PopVerify") /\ last.honest) => last.expect.res = "Ok"

\* C02 / C09 / C07: the verifier accepts exactly the one ideal element
Exact ==
  /\ Judged("Verify")      => ((last.expect.res = "Ok") <=> last.ideal)
  /\ Judged("PopVerify")   => ((last.expect.res = "Ok") <=> last.ideal)
  /\ Judged("MultiVerify") => ((last.expect.res = "Ok") <=> last.ideal)

\* C04: nothing is accepted with an identity operand; the zero key never signs
NoIdentityAccepted ==
  /\ (Judged("Verify") \/ Judged("PopVerify") \/ Judged("MultiVerify")) =>
        ((last.idpk \/ last.idsig) => last.expect.res = "Err")
  /\ Judged("AggVerify") => ((last.idsig \/ last.how \in {"idkey", "addid"}) => last.expect.res = "Err")
  /\ ((Judged("Sign") \/ Judged("PopProve")) /\ last.k = 0) => last.expect.res = "Err"

\* C05: an artefact made under one scheme / purpose is never accepted under another
Separated ==
  /\ (Judged("Verify") /\ last.expect.res = "Ok") =>
        /\ last.sig.base.scheme = last.label
  /\ (Judged("PopVerify") /\ last.expect.res = "Ok") => last.proof.base.scheme = "PopProof"
  /\ Distinct /\ IetfConform

\* C06: aggregate verification - complete, exact, Basic needs distinct messages
AggExact ==
  Judged("AggVerify") =>
    /\ (last.expect.res = "Ok") <=> last.ideal
    /\ (last.sameset /\ ~last.idsig /\ ~(last.scheme = "Basic" /\ last.dupmsg)) => last.expect.res = "Ok"
    /\ (last.scheme = "Basic" /\ last.dupmsg) => last.expect.res = "Err"
    /\ (~last.sameset /\ last.how \in {"altermsg", "alterkey", "drop", "add", "idkey", "addid"}) => last.expect.res = "Err"
AggRefusal ==
  Judged("Aggregate") =>
    ((last.expect.res = "Ok") <=> (Len(last.sigs) >= 2 /\ \A i \in 1..Len(last.sigs) : last.sigs[i].base.scheme = last.sigs[1].base.scheme))

\* C07: multi-signatures verify against exactly the signer multiset and message
MultiExact ==
  /\ Judged("MultiVerify") =>
        /\ (last.samekeys /\ last.samemsg /\ ~last.idsig /\ ~last.idpk) => last.expect.res = "Ok"
        /\ ~last.samemsg => last.expect.res = "Err"
  /\ Judged("Accumulate") =>
        ((last.expect.res = "Ok") <=>
           ((Len(last.sigs) >= 2)
            /\ (\A i \in 1..Len(last.sigs) : last.sigs[i].base.scheme = last.sigs[1].base.scheme)
            /\ (\A j \in 2..Len(last.sigs) : last.sigs[j].base.scheme # "Aug")))

\* vector emission (always TRUE)
EmitVec == (Emit /\ last.act # "-") => PrintT(<<"VEC", ToJson(last)>>)

\* coverage helper: the set of acts that must occur
TypeOK == phase \in {"idle", "made", "judged"}
=============================================================================
