SPECIFICATION Spec
CONSTANTS
  Procs <- P2
  Threads <- T2
  Calls = 1
  Draws = 1
  Mode = "cloned"
INVARIANTS TypeOK NoReuse FreshGenerators
CHECK_DEADLOCK FALSE
