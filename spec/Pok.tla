-------------------------------- MODULE Pok --------------------------------
(***************************************************************************)
(* Signature proofs of knowledge: prover / challenger / clock / adversary / *)
(* verifier.  Serves C10 (and the PoK sites of C04 C05 C17).               *)
(*   src/traits/sig_proof.rs, src/proof_commitment.rs,                     *)
(*   src/proof_of_knowledge.rs                                             *)
(*                                                                         *)
(* interactive:  commit  u = x H(tag, m), x <- random                      *)
(*               challenge y (from bytes, from a hash, or random)          *)
(*               finalize v = -(x + y) sig                                 *)
(*               verify   e(v, P) e(u + y H(tag, m), pk) = 1               *)
(* timestamp:    y = Hy(u, t) with t the prover's clock at generation;     *)
(*               verify(timeout): now - t <= timeout, a future t is an     *)
(*               error, never an abort.                                    *)
(*                                                                         *)
(* The commitment is made from the message and the signature alone, so for *)
(* MessageAugmentation (signature over pk || m) the pinned code hashes the *)
(* plain m and no honest proof verifies: deviation "PokAugPlainMsg" (D6),  *)
(* a recorded finding (repair needs the public key at commit time).        *)
(***************************************************************************)
EXTENDS SigOps, Json

CONSTANTS Keys, MsgRs, Taus, Deviations, Emit

VARIABLES phase, ses, clock, last
vars == <<phase, ses, clock, last>>

T0 == 1000000          \* the prover's clock at generation (model milliseconds)

\* what the commitment hashes for (scheme, signer key, message)
CommitMsg(scheme, pk, m) == IF "PokAugPlainMsg" \in Deviations THEN m ELSE HashMsg(scheme, pk, m)

\* BlsSignatureProof::generate_commitment
Commit(scheme, pk, m) == GScale(PAtom("x"), Hs(TagOf(scheme), CommitMsg(scheme, pk, m)))
\* BlsSignatureProof::generate_proof (guards in source order)
Finalize(u, x, y, sig) ==
  IF GIsId(u) THEN [r |-> Err("InvalidInputs"), v |-> GId]
  ELSE IF GIsId(sig) THEN [r |-> Err("InvalidInputs"), v |-> GId]
  ELSE IF PIsZero(x) THEN [r |-> Err("InvalidInputs"), v |-> GId]
  ELSE IF PIsZero(y) THEN [r |-> Err("InvalidInputs"), v |-> GId]
  ELSE [r |-> Ok, v |-> GNeg(GScale(PAdd(x, y), sig))]
\* BlsSignatureProof::verify (guards in source order); the verifier hashes the message it is given
VerifyPok(u, v, pk, y, scheme, m) ==
  IF GIsId(u) THEN Err("InvalidInputs")
  ELSE IF GIsId(v) THEN Err("InvalidInputs")
  ELSE IF GIsId(pk) THEN Err("InvalidInputs")
  ELSE IF PIsZero(y) THEN Err("InvalidInputs")
  ELSE IF GtOne(PairList(<< <<v, GenK>>, <<GAdd(u, GScale(y, Hs(TagOf(scheme), CommitMsg(scheme, pk, m)))), pk>> >>)) THEN Ok
  ELSE Err("InvalidProof")
\* verify_timestamp_proof: time window first (a future timestamp is an error), then y = Hy(u, t)
VerifyTs(u, v, pk, y, scheme, m, ts, now, tau) ==
  IF tau >= 0 /\ ts > now THEN Err("InvalidProof")
  ELSE IF tau >= 0 /\ now - ts > tau THEN Err("InvalidProof")
  ELSE VerifyPok(u, v, pk, y, scheme, m)

\* challenges
YKinds == {"bytes", "hash", "random", "zero"}
YVal(kind) == CASE kind = "bytes" -> PConst(3) [] kind = "hash" -> PAtom("yh") [] kind = "random" -> PAtom("yr") [] kind = "zero" -> PZero

\* ------------------------------------------------------------ adversary: one component perturbed
Perts == {"none", "u_add", "u_neg", "u_id", "v_add", "v_neg", "v_id", "uv_id", "y_other", "y_zero", "msg", "pk_other", "pk_neg", "pk_id", "label", "forge_v_id", "pop_as_sig"}
TsPerts == {"none", "u_add", "u_id", "v_add", "v_neg", "v_id", "msg", "pk_other", "pk_id", "label", "ts_past", "ts_future", "ts_zero", "ts_max", "cross_forge"}

\* ------------------------------------------------------------ system
Quiet == [act |-> "-"]
NoSes == [k |-> 0, scheme |-> "", m |-> <<>>, y |-> "", f |-> 0]
\* instants inside a millisecond (microseconds past the model clock): the stamp is the *truncated* reading and the
\* age is a whole number of milliseconds, so no verdict depends on them
Fracs == {0, 999}
NZKeys == Keys \ {0}
OtherKey(k) == CHOOSE k2 \in NZKeys : k2 # k
OtherMsg(m) == CHOOSE m2 \in MsgRs : m2 # m
OtherScheme(s) == IF s = "Basic" THEN "Pop" ELSE "Basic"

Init == phase = "idle" /\ ses = NoSes /\ clock = T0 /\ last = Quiet

\* interactive protocol: one transition per protocol run + adversary move + verification
APok(k, s, mr, yk, pert) ==
  /\ phase = "idle"
  /\ LET pk == PkOf(k)
         \* pop_as_sig: the prover holds only the signer's proof of possession and presents it as a signature of
         \* scheme s over the public-key bytes (the message a proof of possession is computed over)
         m == IF pert = "pop_as_sig" THEN <<EncK(pk)>> ELSE DenMsg(mr)
         sig == IF pert = "pop_as_sig" THEN PopProve(SkOf(k)).v ELSE Sign(SkOf(k), s, m).v
         u == Commit(s, pk, m)
         y == YVal(yk)
         f == Finalize(u, PAtom("x"), y, sig)
         \* forge_v_id: no signature at all - the commitment is chosen after the challenge as -y H(m) and the
         \* response is the identity, which satisfies the pairing equation for every key; only the guard refuses it
         u2 == CASE pert = "u_add" -> GAdd(u, GenS) [] pert = "u_neg" -> GNeg(u) [] pert \in {"u_id", "uv_id"} -> GId
                 [] pert = "forge_v_id" -> GNeg(GScale(y, Hs(TagOf(s), CommitMsg(s, pk, m)))) [] OTHER -> u
         v2 == CASE pert = "v_add" -> GAdd(f.v, GenS) [] pert = "v_neg" -> GNeg(f.v) [] pert \in {"v_id", "uv_id", "forge_v_id"} -> GId [] OTHER -> f.v
         y2 == CASE pert = "y_other" -> PAdd(y, PConst(1)) [] pert = "y_zero" -> PZero [] OTHER -> y
         m2 == IF pert = "msg" THEN DenMsg(OtherMsg(mr)) ELSE m
         pk2 == CASE pert = "pk_other" -> PkOf(OtherKey(k)) [] pert = "pk_neg" -> GNeg(pk) [] pert = "pk_id" -> GId [] OTHER -> pk
         s2 == IF pert = "label" THEN OtherScheme(s) ELSE s
         r == IF IsOk(f.r) THEN VerifyPok(u2, v2, pk2, y2, s2, m2) ELSE f.r IN
       last' = [act |-> "Pok", k |-> k, scheme |-> s, msg |-> mr, y |-> yk, pert |-> pert,
                k2 |-> OtherKey(k), msg2 |-> OtherMsg(mr), scheme2 |-> OtherScheme(s),
                expect |-> [finalize |-> f.r.t, res |-> r.t, err |-> r.e]]
  /\ phase' = "judged" /\ UNCHANGED <<ses, clock>>

\* a negative design fact, kept as an action so that it stays true of the code: a commitment (u, x) answered for
\* two different challenges reveals the signature - v1 - v2 = (y2 - y1) sig - so a ProofCommitmentSecret is
\* one-time.  The extractor is the environment's; the model says its output IS the signature.
AReuse(k, s, mr) ==
  /\ phase = "idle"
  /\ LET pk == PkOf(k)   m == DenMsg(mr)
         sig == Sign(SkOf(k), s, m).v
         u == Commit(s, pk, m)
         f1 == Finalize(u, PAtom("x"), PConst(3), sig)
         f2 == Finalize(u, PAtom("x"), PConst(5), sig)
         ext == GScale(PRat(<<1, 2>>), GAdd(f1.v, GNeg(f2.v))) IN       \* (v1 - v2) / (y2 - y1)
       last' = [act |-> "PokReuse", k |-> k, scheme |-> s, msg |-> mr, y1 |-> 3, y2 |-> 5, pert |-> "none",
                expect |-> [res |-> "Ok", extracted |-> (IsOk(f1.r) /\ IsOk(f2.r) /\ ext = sig)]]
  /\ phase' = "judged" /\ UNCHANGED <<ses, clock>>

\* timestamp variant: generation stamps the clock; Tick; verification with a timeout
AGenerateTs(k, s, mr, f) ==
  /\ phase = "idle"
  /\ ses' = [k |-> k, scheme |-> s, m |-> mr, y |-> "ts", f |-> f]
  /\ clock' = T0 /\ last' = Quiet /\ phase' = "stamped"

ATick(d) == phase = "stamped" /\ clock = T0 /\ clock' = T0 + d /\ UNCHANGED <<phase, ses>> /\ last' = Quiet

AVerifyTs(pert, tau, g) ==       \* tau = -1 : no timeout; g = microseconds past the verifier's millisecond
  /\ phase = "stamped" /\ (pert = "none" \/ g = 0)
  /\ LET k == ses.k   s == ses.scheme   pk == PkOf(k)   m == DenMsg(ses.m)
         sig == Sign(SkOf(k), s, m).v
         u == Commit(s, pk, m)
         y == PAtom("yts")                              \* Hy(u, T0)
         v == GNeg(GScale(PAdd(PAtom("x"), y), sig))
         \* cross_forge: the holder of a signature under scheme s builds a proof for the OTHER scheme from a challenge
         \* value y0 it obtained for some other commitment: u' = (x + y0) H_s - y0 H_other, v' = -(x + y0) sig.  It
         \* verifies iff the verifier's challenge for (u', t) is y0 - which a challenge bound to the commitment never is
         y0 == PAtom("y0")
         hO == Hs(TagOf(OtherScheme(s)), CommitMsg(OtherScheme(s), pk, m))
         hS == Hs(TagOf(s), CommitMsg(s, pk, m))
         u2 == CASE pert = "u_add" -> GAdd(u, GenS) [] pert = "u_id" -> GId
                 [] pert = "cross_forge" -> GAdd(GScale(PAdd(PAtom("x"), y0), hS), GNeg(GScale(y0, hO))) [] OTHER -> u
         v2 == CASE pert = "v_add" -> GAdd(v, GenS) [] pert = "v_neg" -> GNeg(v) [] pert = "v_id" -> GId
                 [] pert = "cross_forge" -> GNeg(GScale(PAdd(PAtom("x"), y0), sig)) [] OTHER -> v
         ts == CASE pert = "ts_past" -> T0 - 10 [] pert = "ts_future" -> T0 + 100000 [] pert = "ts_zero" -> 0 [] pert = "ts_max" -> 2000000000 [] OTHER -> T0
         \* the verifier recomputes y from what it is shown: a random-oracle value, fresh unless (u, t) is the honest pair
         y2 == IF u2 = u /\ ts = T0 THEN y ELSE PAtom("yfresh")
         m2 == IF pert = "msg" THEN DenMsg(OtherMsg(ses.m)) ELSE m
         pk2 == CASE pert = "pk_other" -> PkOf(OtherKey(k)) [] pert = "pk_id" -> GId [] OTHER -> pk
         s2 == IF pert \in {"label", "cross_forge"} THEN OtherScheme(s) ELSE s
         r == VerifyTs(u2, v2, pk2, y2, s2, m2, ts, clock, tau) IN
       last' = [act |-> "PokTs", k |-> k, scheme |-> s, msg |-> ses.m, pert |-> pert, delay |-> clock - T0, tau |-> tau,
                genfrac |-> ses.f, verfrac |-> g,
                k2 |-> OtherKey(k), msg2 |-> OtherMsg(ses.m), scheme2 |-> OtherScheme(s),
                expect |-> [res |-> r.t, err |-> r.e]]
  /\ phase' = "judged" /\ UNCHANGED <<ses, clock>>

AReset == phase = "judged" /\ phase' = "idle" /\ ses' = NoSes /\ clock' = T0 /\ last' = Quiet

Delays == {0} \cup UNION {{t - 1, t, t + 1, 100 * t + 7} : t \in {x \in Taus \ {-1, 0} : x < 1000000}}

Next ==
  \/ (phase = "idle" /\ \E k \in NZKeys, s \in Schemes, mr \in MsgRs, yk \in YKinds, pert \in Perts : APok(k, s, mr, yk, pert))
  \/ (phase = "idle" /\ \E k \in NZKeys, s \in Schemes, mr \in MsgRs : AReuse(k, s, mr))
  \/ (phase = "idle" /\ \E k \in NZKeys, s \in Schemes, mr \in MsgRs, f \in Fracs : AGenerateTs(k, s, mr, f))
  \/ (phase = "stamped" /\ \E d \in Delays \ {0} : ATick(d))
  \/ (phase = "stamped" /\ \E pert \in TsPerts, tau \in Taus, g \in Fracs : AVerifyTs(pert, tau, g))
  \/ AReset

Spec == Init /\ [][Next]_vars

\* ------------------------------------------------------------ properties (C10)
Judged(a) == last.act = a
\* a holder of a valid signature can always complete the protocol (non-zero challenge), every scheme
Completeness ==
  /\ (Judged("Pok") /\ last.pert = "none" /\ last.y # "zero") => (last.expect.finalize = "Ok" /\ last.expect.res = "Ok")
  /\ (Judged("PokTs") /\ last.pert = "none" /\ (last.tau = -1 \/ last.delay <= last.tau)) => last.expect.res = "Ok"
\* for no other challenge, message, public key, label or modified component
Bound ==
  /\ (Judged("Pok") /\ last.pert # "none") => last.expect.res = "Err"
  /\ (Judged("PokTs") /\ last.pert # "none") => last.expect.res = "Err"
\* rejected once the timeout has elapsed
\* one commitment, two challenges: the signature is extractable (the commitment secret is one-time)
ReuseExtracts == Judged("PokReuse") => last.expect.extracted
TimeBound == (Judged("PokTs") /\ last.tau >= 0 /\ last.delay > last.tau) => last.expect.res = "Err"
\* C04: zero challenge, identity commitment / proof / key
NoIdentity ==
  /\ (Judged("Pok") /\ last.pert \in {"u_id", "v_id", "uv_id", "y_zero", "pk_id", "forge_v_id"}) => last.expect.res = "Err"
  /\ (Judged("Pok") /\ last.y = "zero") => last.expect.finalize = "Err"

EmitVec == (Emit /\ last.act # "-") => PrintT(<<"VEC", ToJson([spec |-> "Pok"] @@ last)>>)
TypeOK == phase \in {"idle", "stamped", "judged"}
=============================================================================
