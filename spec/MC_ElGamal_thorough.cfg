SPECIFICATION Spec
CONSTANTS
  Keys <- KeysT
  Plains <- PlainsT
  MaxSum = 4
  MaxN = 4
  BigTN <- BigQ
  Depth = 2
  Emit = TRUE
INVARIANTS TypeOK Homomorphic ProofExact VerifyDecryptExact SharesExact SealRefusesIdentityKey EmitVec
CHECK_DEADLOCK FALSE
