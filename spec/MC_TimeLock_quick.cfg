SPECIFICATION Spec
CONSTANTS
  Keys <- KeysQ
  Ids <- IdsQ
  Lens <- LensQ
  Depth = 1
  BigTN <- BigQ
  MaxN = 3
  Deviations <- NoDev
  Emit = TRUE
INVARIANTS TypeOK OpensExactly OnlyRightSig TamperNothing RelabelNothing OpensIff BenignStillOpens NoIdentity SealRefusesIdentityKey EmitVec
CHECK_DEADLOCK FALSE
