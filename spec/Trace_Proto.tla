----------------------------- MODULE Trace_Proto -----------------------------
(***************************************************************************)
(* implementation -> spec for the protocols: everything Trace_SigNet       *)
(* validates, plus threshold sharing, time-lock, signcryption (incl.       *)
(* threshold decryption) and ElGamal, in one value space - so a signature  *)
(* recombined from shares must carry the id of the whole-key signature and *)
(* must open the time-lock ciphertext sealed for that key, a decryption    *)
(* key recombined from shares must equal sk*U, and so on.  Ephemeral       *)
(* values the library drew are atoms named after the event that made them. *)
(* A trace is accepted iff, for every event,                               *)
(*   - the logged verdict is the one the specification computes, and       *)
(*   - the equality pattern of concrete bytes (value-ids) is isomorphic to *)
(*     the equality pattern of abstract terms (the Bind rule):             *)
(*     same term <=> same id.  This is what checks determinism, aggregate  *)
(*     = plain sum, distinct tags => distinct signatures, and so on.       *)
(***************************************************************************)
EXTENDS ThOps, Json, IOUtils, TLCExt

Rec == ndJsonDeserialize(IOEnv.TRACE)

VARIABLES l, val, dummy
tvars == <<l, val, dummy>>

\* the system modules' operators, instantiated without their state
TL == INSTANCE TimeLock WITH Keys <- {}, Ids <- {}, Lens <- {}, Depth <- 0, MaxN <- 0, BigTN <- {}, Deviations <- {}, Emit <- FALSE,
                             phase <- dummy, ct <- dummy, last <- dummy
SC == INSTANCE SignCrypt WITH Keys <- {}, Lens <- {}, Depth <- 0, MaxN <- 0, BigTN <- {}, Modes <- {}, Deviations <- {}, Emit <- FALSE,
                              phase <- dummy, ct <- dummy, other <- dummy, deal <- dummy, last <- dummy
EG == INSTANCE ElGamal WITH Keys <- {}, Plains <- {}, MaxSum <- 0, MaxN <- 0, BigTN <- {}, Depth <- 0, Emit <- FALSE,
                            phase <- dummy, pf <- dummy, last <- dummy

\* the proof-of-knowledge operators as the code is (MessageAugmentation commitments hash the plain message: D6)
PK == INSTANCE Pok WITH Keys <- {}, MsgRs <- {}, Taus <- {}, Deviations <- {"PokAugPlainMsg"}, Emit <- FALSE,
                        phase <- dummy, ses <- dummy, clock <- dummy, last <- dummy

\* a value: kind, scheme label, group element, scalar polynomial, and a kind-specific record x
VX(kind, scheme, den, p, x) == [kind |-> kind, scheme |-> scheme, den |-> den, p |-> p, x |-> x]
V(kind, scheme, den, p) == VX(kind, scheme, den, p, <<>>)
NoVal == [y \in {} |-> V("", "", GId, PZero)]

IsEvent(e) == l <= Len(Rec) /\ Rec[l].ev = e /\ l' = l + 1

\* same bytes <=> same term; values of different kinds have different encodings and are never compared
Bind(id, v) == IF id \in DOMAIN val THEN val[id].kind = v.kind /\ val[id] = v /\ UNCHANGED val
               ELSE (\A j \in DOMAIN val : val[j].kind = v.kind => val[j] # v) /\ val' = val @@ (id :> v)

Known(id, kind) == id \in DOMAIN val /\ val[id].kind = kind

\* trace message chunks: [c |-> "a", s |-> atom name, id |-> ""] or [c |-> "pk", s |-> "", id |-> value-id of a pk]
TChunk(ch) == IF ch.c = "pk" THEN EncK(val[ch.id].den) ELSE Atom(ch.s)
TMsg(m) == [i \in 1..Len(m) |-> TChunk(m[i])]

TReset == IsEvent("Reset") /\ val' = NoVal /\ UNCHANGED dummy

TSk == /\ IsEvent("Sk")
       /\ LET e == Rec[l] IN
            Bind(e.out, V("sk", "", GId, IF e.kind = "int" THEN PConst(e.k) ELSE PAtom(e.atom)))

TPk == /\ IsEvent("Pk")
       /\ LET e == Rec[l] IN
            /\ Known(e.sk, "sk")
            /\ Bind(e.out, V("pk", "", GScale(val[e.sk].p, GenK), PZero))

TSign == /\ IsEvent("Sign")
         /\ LET e == Rec[l]
                r == Sign(val[e.sk].p, e.scheme, TMsg(e.msg)) IN
              /\ Known(e.sk, "sk")
              /\ e.res = r.r.t
              /\ IF IsOk(r.r) THEN Bind(e.out, V("sig", e.scheme, r.v, PZero)) ELSE UNCHANGED val

TVerify == /\ IsEvent("Verify")
           /\ LET e == Rec[l]
                  pk == val[e.pk].den   s == val[e.sig]
                  r == Verify(pk, s.scheme, s.den, TMsg(e.msg)) IN
                /\ Known(e.pk, "pk") /\ Known(e.sig, "sig")
                /\ e.res = r.t
                \* the ideal layer agrees on every tuple the implementation was asked about
                /\ IsOk(r) <=> IdealVerify(pk, s.scheme, s.den, TMsg(e.msg))
           /\ UNCHANGED val

TSigOp == /\ IsEvent("SigOp")
          /\ LET e == Rec[l]   a == val[e.of]
                 n == CASE e.op = "Neg"      -> [scheme |-> a.scheme, den |-> GNeg(a.den)]
                        [] e.op = "AddGen"   -> [scheme |-> a.scheme, den |-> GAdd(a.den, GenS)]
                        [] e.op = "Scale"    -> [scheme |-> a.scheme, den |-> GMulInt(2, a.den)]
                        [] e.op = "Relabel"  -> [scheme |-> e.arg, den |-> a.den]
                        [] e.op = "Identity" -> [scheme |-> a.scheme, den |-> GId]
                        [] e.op = "SumSig"   -> [scheme |-> a.scheme, den |-> GAdd(a.den, val[e.arg].den)] IN
               /\ Known(e.of, "sig")
               /\ Bind(e.out, V("sig", n.scheme, n.den, PZero))

TPkOp == /\ IsEvent("PkOp")
         /\ LET e == Rec[l]   a == val[e.of].den
                n == CASE e.op = "Neg"      -> GNeg(a)
                       [] e.op = "AddGen"   -> GAdd(a, GenK)
                       [] e.op = "Identity" -> GId
                       [] e.op = "SumPk"    -> GAdd(a, val[e.arg].den) IN
              /\ Known(e.of, "pk")
              /\ Bind(e.out, V("pk", "", n, PZero))

TPopProve == /\ IsEvent("PopProve")
             /\ LET e == Rec[l]
                    r == PopProve(val[e.sk].p) IN
                  /\ Known(e.sk, "sk")
                  /\ e.res = r.r.t
                  /\ IF IsOk(r.r) THEN Bind(e.out, V("pop", "", r.v, PZero)) ELSE UNCHANGED val

TPopVerify == /\ IsEvent("PopVerify")
              /\ LET e == Rec[l]
                     r == PopVerify(val[e.pk].den, val[e.pop].den) IN
                   /\ Known(e.pk, "pk") /\ Known(e.pop, "pop")
                   /\ e.res = r.t
                   /\ IsOk(r) <=> (~GIsId(val[e.pk].den) /\ ~GIsId(val[e.pop].den) /\ val[e.pop].den = IdealPop(val[e.pk].den))
              /\ UNCHANGED val

TPopAsSig == /\ IsEvent("PopAsSig")
             /\ LET e == Rec[l] IN
                  /\ Known(e.of, "pop")
                  /\ Bind(e.out, V("sig", e.arg, val[e.of].den, PZero))

SigSeq(ids) == [i \in 1..Len(ids) |-> [scheme |-> val[ids[i]].scheme, den |-> val[ids[i]].den]]

TAggregate == /\ IsEvent("Aggregate")
              /\ LET e == Rec[l]
                     r == Aggregate(SigSeq(e.sigs)) IN
                   /\ \A i \in 1..Len(e.sigs) : Known(e.sigs[i], "sig")
                   /\ e.res = r.r.t
                   /\ IF IsOk(r.r) THEN Bind(e.out, V("agg", r.scheme, r.v, PZero)) ELSE UNCHANGED val

TAggVerify == /\ IsEvent("AggVerify")
              /\ LET e == Rec[l]
                     ps == [i \in 1..Len(e.pairs) |-> [pk |-> val[e.pairs[i].pk].den, m |-> TMsg(e.pairs[i].msg)]]
                     a == val[e.agg]
                     r == AggVerify(ps, a.scheme, a.den) IN
                   /\ Known(e.agg, "agg")
                   /\ e.res = r.t
                   /\ IsOk(r) <=> IdealAggVerify(ps, a.scheme, a.den)
              /\ UNCHANGED val

TAccumulate == /\ IsEvent("Accumulate")
               /\ LET e == Rec[l]
                      r == Accumulate(SigSeq(e.sigs)) IN
                    /\ \A i \in 1..Len(e.sigs) : Known(e.sigs[i], "sig")
                    /\ e.res = r.r.t
                    /\ IF IsOk(r.r) THEN Bind(e.out, V("msig", r.scheme, r.v, PZero)) ELSE UNCHANGED val

TMultiKey == /\ IsEvent("MultiKey")
             /\ LET e == Rec[l] IN
                  /\ \A i \in 1..Len(e.pks) : Known(e.pks[i], "pk")
                  /\ Bind(e.out, V("mpk", "", MultiKey([i \in 1..Len(e.pks) |-> val[e.pks[i]].den]), PZero))

TMultiVerify == /\ IsEvent("MultiVerify")
                /\ LET e == Rec[l]
                       s == val[e.msig]
                       r == Verify(val[e.mpk].den, s.scheme, s.den, TMsg(e.msg)) IN
                     /\ Known(e.msig, "msig") /\ Known(e.mpk, "mpk")
                     /\ e.res = r.t
                     /\ IsOk(r) <=> IdealVerify(val[e.mpk].den, s.scheme, s.den, TMsg(e.msg))
                /\ UNCHANGED val


\* ------------------------------------------------------------ threshold sharing
ShareIdOf(id) == val[id].x.id
Entries(ids) == [i \in 1..Len(ids) |-> [id |-> ShareIdOf(ids[i]), src |-> ShareIdOf(ids[i]), ok |-> TRUE, scheme |-> val[ids[i]].scheme]]

TSplit == /\ IsEvent("Split")
          /\ LET e == Rec[l] IN
               /\ Known(e.sk, "sk")
               /\ e.res = SplitRes(e.t, e.n).t
               /\ IF e.res = "Ok"
                  THEN /\ Len(e.outs) = e.n
                       \* all shares are new, pairwise different values lying on one polynomial through the key
                       /\ \A i \in 1..e.n : e.outs[i] \notin DOMAIN val
                       /\ \A i, j \in 1..e.n : i # j => e.outs[i] # e.outs[j]
                       /\ val' = val @@ [o \in {e.outs[i] : i \in 1..e.n} |->
                                         LET i == CHOOSE i \in 1..e.n : e.outs[i] = o IN
                                           VX("skshare", "", GId, ShareVal(val[e.sk].p, e.deal, e.t, i), [id |-> i])]
                  ELSE UNCHANGED val

TPkShare == /\ IsEvent("PkShare")
            /\ LET e == Rec[l] IN
                 /\ Known(e.share, "skshare")
                 /\ Bind(e.out, VX("pkshare", "", GScale(val[e.share].p, GenK), PZero, val[e.share].x))

TPartialSign == /\ IsEvent("PartialSign")
                /\ LET e == Rec[l]
                       sh == val[e.share] IN
                     /\ Known(e.share, "skshare")
                     /\ e.res = (IF e.scheme = "Aug" \/ PIsZero(sh.p) THEN "Err" ELSE "Ok")
                     /\ IF e.res = "Ok"
                        THEN Bind(e.out, VX("sigshare", e.scheme, GScale(sh.p, Hs(TagOf(e.scheme), TMsg(e.msg))), PZero, sh.x))
                        ELSE UNCHANGED val

TPartialVerify == /\ IsEvent("PartialVerify")
                  /\ LET e == Rec[l]
                         r == Verify(val[e.pkshare].den, val[e.sigshare].scheme, val[e.sigshare].den, TMsg(e.msg)) IN
                       /\ Known(e.pkshare, "pkshare") /\ Known(e.sigshare, "sigshare")
                       /\ e.res = r.t
                  /\ UNCHANGED val

TCombineSig == /\ IsEvent("CombineSig")
               /\ LET e == Rec[l]
                      es == Entries(e.shares)
                      g == IF \E i \in 2..Len(es) : es[i].scheme # es[1].scheme THEN Err("InvalidSignatureScheme") ELSE CombineGuard(es) IN
                    /\ \A i \in 1..Len(e.shares) : Known(e.shares[i], "sigshare")
                    /\ e.res = g.t
                    /\ IF IsOk(g)
                       THEN Bind(e.out, V("sig", es[1].scheme, CombineGroup(es, [i \in 1..Len(es) |-> val[e.shares[i]].den]), PZero))
                       ELSE UNCHANGED val

TCombinePk == /\ IsEvent("CombinePk")
              /\ LET e == Rec[l]
                     es == Entries(e.shares)
                     g == CombineGuard(es) IN
                   /\ \A i \in 1..Len(e.shares) : Known(e.shares[i], "pkshare")
                   /\ e.res = g.t
                   /\ IF IsOk(g) THEN Bind(e.out, V("pk", "", CombineGroup(es, [i \in 1..Len(es) |-> val[e.shares[i]].den]), PZero)) ELSE UNCHANGED val

TCombineKey == /\ IsEvent("CombineKey")
               /\ LET e == Rec[l]
                      es == Entries(e.shares)
                      g == CombineGuard(es) IN
                    /\ \A i \in 1..Len(e.shares) : Known(e.shares[i], "skshare")
                    /\ e.res = g.t
                    /\ IF IsOk(g) THEN Bind(e.out, V("sk", "", GId, CombinePoly(es, [i \in 1..Len(es) |-> val[e.shares[i]].p]))) ELSE UNCHANGED val

\* ------------------------------------------------------------ time-lock
TTLSeal == /\ IsEvent("TLSeal")
           /\ LET e == Rec[l]
                  pk == val[e.pk].den IN
                /\ Known(e.pk, "pk")
                /\ e.res = (IF GIsId(pk) THEN "Err" ELSE "Ok")
                /\ IF e.res = "Ok"
                   THEN /\ e.len = TL!FrameLen(e.n)
                        /\ Bind(e.out, VX("tlct", e.scheme, GId, PZero, TL!SealR(pk, e.scheme, TMsg(e.id), e.n, e.atom) @@ [r |-> e.atom, tid |-> ""]))
                   ELSE UNCHANGED val

TTLTamper == /\ IsEvent("TLTamper")
             /\ LET e == Rec[l]
                    c == val[e.of].x
                    o == [op |-> e.op, arg |-> e.arg] IN
                  /\ Known(e.of, "tlct")
                  /\ e.op \in {"UNeg", "UAddGen", "UId", "VFlip", "W", "Relabel"}
                  /\ (e.op = "W" => c.wtam = "") /\ (e.op = "VFlip" => c.vtam = "")
                  \* (tid distinguishes two alterations of the same class - e.g. two different bits of one region)
                  /\ Bind(e.out, VX("tlct", IF e.op = "Relabel" THEN e.arg ELSE val[e.of].scheme, GId, PZero, [TL!ApplyOp(c, o) EXCEPT !.tid = @ \o e.tid]))

TTLDecrypt == /\ IsEvent("TLDecrypt")
              /\ LET e == Rec[l]
                     c == val[e.ct].x
                     s == val[e.sig] IN
                   /\ Known(e.ct, "tlct") /\ Known(e.sig, "sig")
                   /\ e.res = TL!OpenR(c, s.scheme, s.den, c.r)
              /\ UNCHANGED val

\* ------------------------------------------------------------ signcryption
TSCSeal == /\ IsEvent("SCSeal")
           /\ LET e == Rec[l] IN
                /\ Known(e.pk, "pk")
                /\ e.len = SC!FrameLen(e.n)
                /\ Bind(e.out, VX("scct", e.scheme, GId, PZero, SC!Seal(val[e.pk].den, e.scheme, e.n, e.atom) @@ [tid |-> ""]))

\* the adversary alters a recorded ciphertext (one move): the altered ciphertext is a new value
TSCTamper == /\ IsEvent("SCTamper")
             /\ LET e == Rec[l]
                    c == val[e.of].x
                    o == [op |-> e.op, arg |-> e.arg] IN
                  /\ Known(e.of, "scct")
                  /\ e.op \in {"UNeg", "UAddGen", "UId", "WNeg", "WAddGen", "WId", "UWId", "VFlip", "VExtend", "Relabel"}
                  /\ Bind(e.out, VX("scct", IF e.op = "Relabel" THEN e.arg ELSE val[e.of].scheme, GId, PZero, [SC!ApplyOp(c, o, c) EXCEPT !.tid = @ \o e.tid]))

TSCValid == /\ IsEvent("SCValid")
            /\ Known(Rec[l].ct, "scct")
            /\ Rec[l].res = SC!Valid(val[Rec[l].ct].x)
            /\ UNCHANGED val

\* n = length class of the sealed message.  Recorded finding D11 (known_findings.json): there is no key
\* confirmation, so for messages of length <= 1 the noise unmasked under a wrong key parses as the same
\* length prefix with probability 2^-8 .. 2^-16 and "Some(original)" is observed; tolerated for exactly
\* that class, rejected for every longer message.
ClassOk(want, got, n) == CASE want = "Some" -> got = "Some" [] want = "None" -> got = "None"
                           [] want = "NotOriginal" -> (got \in {"None", "SomeOther"} \/ (n <= 1 /\ got = "Some")) [] OTHER -> TRUE

TSCDecrypt == /\ IsEvent("SCDecrypt")
              /\ LET e == Rec[l] IN
                   /\ Known(e.ct, "scct") /\ Known(e.sk, "sk")
                   /\ ClassOk(SC!Decrypt(val[e.ct].x, val[e.sk].p), e.res, val[e.ct].x.vn)
              /\ UNCHANGED val

TSCDecShare == /\ IsEvent("SCDecShare")
               /\ LET e == Rec[l] IN
                    /\ Known(e.ct, "scct") /\ Known(e.share, "skshare")
                    /\ Bind(e.out, VX("dshare", "", GScale(val[e.share].p, val[e.ct].x.u), PZero, val[e.share].x))

TSCShareVerify == /\ IsEvent("SCShareVerify")
                  /\ LET e == Rec[l] IN
                       /\ Known(e.dshare, "dshare") /\ Known(e.pkshare, "pkshare") /\ Known(e.ct, "scct")
                       /\ (e.res = "Ok") = SC!ShareVerify(val[e.dshare].den, val[e.pkshare].den, val[e.ct].x)
                  /\ UNCHANGED val

TSCDecryptShares == /\ IsEvent("SCDecryptShares")
                    /\ LET e == Rec[l]
                           c == val[e.ct].x
                           es == Entries(e.shares)
                           g == CombineGuard(es)
                           ua == IF IsOk(g) THEN CombineGroup(es, [i \in 1..Len(es) |-> val[e.shares[i]].den]) ELSE GId
                           want == IF Len(es) < 2 THEN "None" ELSE SC!Open(c, ua, SC!Valid(c)) IN
                         /\ Known(e.ct, "scct") /\ \A i \in 1..Len(e.shares) : Known(e.shares[i], "dshare")
                         /\ ClassOk(want, e.res, c.vn)
                    /\ UNCHANGED val

\* ------------------------------------------------------------ ElGamal
TEGEncrypt == /\ IsEvent("EGEncrypt")
              /\ LET e == Rec[l] IN
                   /\ Known(e.pk, "pk")
                   /\ Bind(e.out, VX("egct", "", GId, PZero, EG!Enc(val[e.pk].den, e.m, e.atom)))

TEGAdd == /\ IsEvent("EGAdd")
          /\ LET e == Rec[l] IN
               /\ Known(e.a, "egct") /\ Known(e.b, "egct")
               /\ Bind(e.out, VX("egct", "", GId, PZero, EG!CtAdd(val[e.a].x, val[e.b].x)))

\* decryption yields a key-group point; plaintext points m*Hm are logged by the harness as "kpt" values too
TEGDecrypt == /\ IsEvent("EGDecrypt")
              /\ LET e == Rec[l] IN
                   /\ Known(e.ct, "egct") /\ Known(e.sk, "sk")
                   /\ Bind(e.out, V("kpt", "", EG!Decrypt(val[e.sk].p, val[e.ct].x), PZero))

TEGPlain == /\ IsEvent("EGPlain")
            /\ Bind(Rec[l].out, V("kpt", "", GScale(PConst(Rec[l].m), GenM), PZero))

\* ------------------------------------------------------------ proofs of knowledge
TPokCommit == /\ IsEvent("PokCommit")
              /\ LET e == Rec[l]  sg == val[e.sig] IN
                   /\ Known(e.sig, "sig")
                   /\ Bind(e.out, VX("pokc", sg.scheme, GScale(PAtom(e.atom), Hs(TagOf(sg.scheme), PK!CommitMsg(sg.scheme, GId, TMsg(e.msg)))), PAtom(e.atom), <<>>))

TPokChallenge == /\ IsEvent("PokChallenge")
                 /\ LET e == Rec[l] IN
                      Bind(e.out, V("poky", "", GId, CASE e.kind = "int" -> PConst(e.k) [] e.kind = "zero" -> PZero [] OTHER -> PAtom(e.atom)))

TPokFinalize == /\ IsEvent("PokFinalize")
                /\ LET e == Rec[l]  c == val[e.commit]  sg == val[e.sig]
                       f == IF c.scheme # sg.scheme THEN [r |-> Err("InvalidProof"), v |-> GId] ELSE PK!Finalize(c.den, c.p, val[e.y].p, sg.den) IN
                     /\ Known(e.commit, "pokc") /\ Known(e.y, "poky") /\ Known(e.sig, "sig")
                     /\ e.res = f.r.t
                     /\ IF IsOk(f.r) THEN Bind(e.out, VX("pok", c.scheme, GId, PZero, [u |-> c.den, v |-> f.v])) ELSE UNCHANGED val

TPokVerify == /\ IsEvent("PokVerify")
              /\ LET e == Rec[l]  pf == val[e.proof] IN
                   /\ Known(e.proof, "pok") /\ Known(e.pk, "pk") /\ Known(e.y, "poky")
                   /\ e.res = PK!VerifyPok(pf.x.u, pf.x.v, val[e.pk].den, val[e.y].p, pf.scheme, TMsg(e.msg)).t
              /\ UNCHANGED val

\* timestamp variant: the challenge is Hy(u, t), an atom named after the proof; the harness pins the clock
TPokTsGen == /\ IsEvent("PokTsGen")
             /\ LET e == Rec[l]  sg == val[e.sig]
                    u == GScale(PAtom(e.atom), Hs(TagOf(sg.scheme), PK!CommitMsg(sg.scheme, GId, TMsg(e.msg))))
                    y == PAtom("y" \o e.atom) IN
                  /\ Known(e.sig, "sig")
                  /\ e.ts = e.now
                  /\ Bind(e.out, VX("pokts", sg.scheme, GId, PZero, [u |-> u, v |-> GNeg(GScale(PAdd(PAtom(e.atom), y), sg.den)), y |-> y, ts |-> e.ts]))

TPokTsVerify == /\ IsEvent("PokTsVerify")
                /\ LET e == Rec[l]  pf == val[e.proof] IN
                     /\ Known(e.proof, "pokts") /\ Known(e.pk, "pk")
                     /\ e.res = PK!VerifyTs(pf.x.u, pf.x.v, val[e.pk].den, pf.x.y, pf.scheme, TMsg(e.msg), pf.x.ts, e.now, e.tau).t
                /\ UNCHANGED val

TraceInit == l = 1 /\ val = NoVal /\ dummy = 0
TraceNext == \/ TReset \/ TSk \/ TPk \/ TSign \/ TVerify \/ TSigOp \/ TPkOp \/ TPopProve \/ TPopVerify
             \/ TPopAsSig \/ TAggregate \/ TAggVerify \/ TAccumulate \/ TMultiKey \/ TMultiVerify
             \/ TSplit \/ TPkShare \/ TPartialSign \/ TPartialVerify \/ TCombineSig \/ TCombinePk \/ TCombineKey
             \/ TTLSeal \/ TTLTamper \/ TTLDecrypt \/ TSCSeal \/ TSCTamper \/ TSCValid \/ TSCDecrypt \/ TSCDecShare \/ TSCShareVerify \/ TSCDecryptShares
             \/ TEGEncrypt \/ TEGAdd \/ TEGDecrypt \/ TEGPlain
             \/ TPokCommit \/ TPokChallenge \/ TPokFinalize \/ TPokVerify \/ TPokTsGen \/ TPokTsVerify
TraceSpec == TraceInit /\ [][TraceNext /\ UNCHANGED dummy]_tvars

\* C04 on every observed state: nothing accepted had an identity operand (checked inside the
\* actions through the ideal layer).  Acceptance: the whole trace was consumed.
TraceAccepted ==
  LET d == TLCGet("stats").diameter IN
    IF d - 1 = Len(Rec) THEN TRUE
    ELSE Print(<<"TRACE-REJECTED at event", d, IF d <= Len(Rec) THEN ToJson(Rec[d]) ELSE "-">>, FALSE)
=============================================================================
