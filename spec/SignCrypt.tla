----------------------------- MODULE SignCrypt -----------------------------
(***************************************************************************)
(* Signcryption: sender / adversary / recipient / threshold participants.  *)
(* Serves C11 C12 (and the signcryption sites of C04 C05).                 *)
(*   src/traits/sign_crypt.rs, src/sign_crypt_ciphertext.rs,               *)
(*   src/sign_decryption_share.rs, src/public_key.rs (sign_crypt),         *)
(*   src/secret_key.rs (sign_decryption_key)                               *)
(*                                                                         *)
(* seal:  r <- random; U = r P; V = XOF(enc(r pk)) xor Frame(M);           *)
(*        W = r H(tag, enc(U) || V)                                        *)
(* A payload V is described by (mask point, length class n, tamper        *)
(* string); two payloads are the same bytes iff the three agree.           *)
(***************************************************************************)
EXTENDS ThOps, Json

CONSTANTS Keys, Lens, Depth, MaxN, BigTN, Modes, Deviations, Emit

VARIABLES phase, ct, other, deal, last
vars == <<phase, ct, other, deal, last>>

Leb128Len(n) == IF n < 128 THEN 1 ELSE IF n < 16384 THEN 2 ELSE IF n < 2097152 THEN 3 ELSE 4
FrameLen(n)  == IF Leb128Len(n) + n < 32 THEN 32 ELSE Leb128Len(n) + n
HasPadding(n) == Leb128Len(n) + n < 32

VChunk(mask, n, tam) == [k |-> "v", s |-> ToString(n) \o ":" \o tam, e |-> mask]
HashIn(c) == <<EncK(c.u), VChunk(c.vmask, c.vn, c.vtam)>>

\* ------------------------------------------------------------ mechanical
\* BlsSignCrypt::seal with ephemeral atom ra for recipient key pk
Seal(pk, scheme, n, ra) ==
  LET r == PAtom(ra)
      u == GScale(r, GenK)
      c0 == [u |-> u, vmask |-> GScale(r, pk), vn |-> n, vtam |-> "", vown |-> TRUE, craft |-> FALSE, w |-> GId, scheme |-> scheme]
  IN [c0 EXCEPT !.w = GScale(r, Hs(TagOf(scheme), HashIn(c0)))]

\* BlsSignCrypt::valid
Valid(c) == /\ GtOne(PairList(<< <<c.w, GNeg(GenK)>>, <<Hs(TagOf(c.scheme), HashIn(c)), c.u>> >>))
            /\ ~GIsId(c.u) /\ ~GIsId(c.w)

\* BlsSignCrypt::decrypt(v, ua, valid): unmask, parse the length prefix, gate on valid.
\* "Some" = exactly the original message; "NotOriginal" = None or Some(other bytes)
Open(c, ua, valid) ==
  IF ~valid THEN "None"
  \* a crafted frame: under the sender's own mask the declared length overruns the payload or does not
  \* parse -> nothing (an overlong prefix whose value exceeds 2^64 is truncated by the `as usize` cast and
  \* may parse: "Any"); under another mask it is noise like any other payload.  Never an abort.
  ELSE IF c.craft THEN (IF ua = c.vmask /\ c.vtam # "craft-overlong" THEN "None" ELSE "Any")
  ELSE IF ua = c.vmask /\ c.vtam = "" /\ c.vown THEN "Some"
  ELSE "NotOriginal"

\* unseal: the key is replaced by zero when the ciphertext is not valid
Decrypt(c, sk) == LET v == Valid(c) IN Open(c, IF v THEN GScale(sk, c.u) ELSE GId, v)
\* SignCryptDecryptionKey(u * sk).decrypt(ct)
DecryptKey(c, key) == Open(c, key, Valid(c))

\* threshold: decryption share of participant i for ciphertext c
FVal0(d, i) == ShareVal(PConst(d.k), "a", d.t, i)
DShare(d, i, c) == GScale(PMul(FVal0(d, i), PConst(1)), c.u)

\* SignDecryptionShare::verify -> BlsSignCrypt::verify_share.  The pinned code passes the
\* Basic tag whatever the ciphertext's scheme (deviation "ShareVerifyBasicTagOnly", D5).
ShareVerify(share, pkshare, c) ==
  LET tag == IF "ShareVerifyBasicTagOnly" \in Deviations THEN "NUL" ELSE TagOf(c.scheme) IN
  /\ ~GIsId(share) /\ ~GIsId(pkshare) /\ ~GIsId(c.w)
  /\ GtOne(PairList(<< <<GNeg(Hs(tag, HashIn(c))), share>>, <<c.w, pkshare>> >>))

\* unseal_with_shares: < 2 shares -> None; a failed combination falls back to the identity point
DecryptWithShares(d, es, c) ==
  IF Len(es) < 2 THEN "None"
  ELSE LET g == CombineGuard(es)
           ua == IF IsOk(g) THEN CombineGroup(es, [i \in 1..Len(es) |-> DShare(d, es[i].src, c)]) ELSE GId
       IN Open(c, ua, Valid(c))
\* SignCryptDecryptionKey::from_shares then decrypt
KeyFromShares(d, es, c) ==
  LET g == CombineGuard(es) IN
  IF ~IsOk(g) THEN "Err" ELSE Open(c, CombineGroup(es, [i \in 1..Len(es) |-> DShare(d, es[i].src, c)]), Valid(c))

\* ------------------------------------------------------------ adversary
COp(op, arg) == [op |-> op, arg |-> arg]
OtherSchemes(s) == Schemes \ {s}

ApplyOp(c, o, oc) ==      \* oc = another ciphertext to borrow components from
  CASE o.op = "UAddGen"  -> [c EXCEPT !.u = GAdd(@, GenK)]
    [] o.op = "UNeg"     -> [c EXCEPT !.u = GNeg(@)]
    [] o.op = "UScale"   -> [c EXCEPT !.u = GMulInt(2, @)]
    [] o.op = "UId"      -> [c EXCEPT !.u = GId]
    [] o.op = "USwap"    -> [c EXCEPT !.u = oc.u]
    [] o.op = "WAddGen"  -> [c EXCEPT !.w = GAdd(@, GenS)]
    [] o.op = "WNeg"     -> [c EXCEPT !.w = GNeg(@)]
    [] o.op = "WId"      -> [c EXCEPT !.w = GId]
    [] o.op = "WSwap"    -> [c EXCEPT !.w = oc.w]
    [] o.op = "UWId"     -> [c EXCEPT !.u = GId, !.w = GId]
    [] o.op = "VFlip"    -> [c EXCEPT !.vtam = @ \o "flip-" \o o.arg \o ";"]      \* arg = region
    [] o.op = "VTrunc"   -> [c EXCEPT !.vtam = @ \o "trunc-" \o o.arg \o ";"]     \* arg = "1" | "half" | "all"
    [] o.op = "VExtend"  -> [c EXCEPT !.vtam = @ \o "extend;"]
    [] o.op = "VSwap"    -> [c EXCEPT !.vmask = oc.vmask, !.vn = oc.vn, !.vtam = oc.vtam, !.vown = FALSE]
    [] o.op = "Relabel"  -> [c EXCEPT !.scheme = o.arg]
    \* a malicious *sender*: a perfectly valid ciphertext whose framed plaintext carries a crafted length
    \* prefix (declares more than is there, 2^63, usize::MAX, an unterminated / overlong LEB128, all 0xff)
    [] o.op = "CraftFrame" -> LET c1 == [c EXCEPT !.u = GScale(PAtom("rx"), GenK), !.vmask = GScale(PAtom("rx"), PkOf(c.k)),
                                                  !.vtam = "craft-" \o o.arg, !.craft = TRUE]
                              IN [c1 EXCEPT !.w = GScale(PAtom("rx"), Hs(TagOf(c1.scheme), HashIn(c1)))]
    \* a fresh header around the borrowed payload: U' = r' P, W' = r' H(tag, U' || V): valid, opens to noise
    [] o.op = "Reseal"   -> LET c1 == [c EXCEPT !.u = GScale(PAtom("rx"), GenK)]
                            IN [c1 EXCEPT !.w = GScale(PAtom("rx"), Hs(TagOf(c1.scheme), HashIn(c1)))]

Regions(n) == {"prefix"} \cup (IF n > 0 THEN {"message"} ELSE {}) \cup (IF HasPadding(n) THEN {"padding"} ELSE {})
Ops(c) == {COp(x, "") : x \in {"UAddGen", "UNeg", "UScale", "UId", "USwap", "WAddGen", "WNeg", "WId", "WSwap", "UWId", "VExtend", "VSwap", "Reseal"}}
          \cup {COp("VFlip", rg) : rg \in Regions(c.vn)}
          \cup {COp("VTrunc", a) : a \in {"1", "half", "all"}}
          \cup {COp("Relabel", s) : s \in OtherSchemes(c.scheme)}
          \cup {COp("CraftFrame", a) : a \in {"over1", "half_max", "usize_max", "overlong", "all_ff", "max_minus_used"}}

\* ------------------------------------------------------------ system
Quiet == [act |-> "-"]
NoCt == [u |-> GId, vmask |-> GId, vn |-> 0, vtam |-> "", vown |-> TRUE, craft |-> FALSE, w |-> GId, scheme |-> "", k |-> 0, ops |-> <<>>, scheme0 |-> "", vn0 |-> 0]
NoDeal == [k |-> 0, t |-> 0, n |-> 0]
CtRec(c) == [k |-> c.k, scheme0 |-> c.scheme0, n |-> c.vn0, ops |-> c.ops]

Mk(k, s, n, ra) == Seal(PkOf(k), s, n, ra) @@ [k |-> k, ops |-> <<>>, scheme0 |-> s, vn0 |-> n]

Init == phase = "idle" /\ ct = NoCt /\ other = NoCt /\ deal = NoDeal /\ last = Quiet


\* the sender seals for key k; a second, independent ciphertext (same key, other length class)
\* exists for the adversary to borrow components from
ASeal(k, s, n) ==
  /\ phase = "idle"
  /\ ct' = Mk(k, s, n, "r1")
  /\ other' = Mk(k, s, IF n = 5 THEN 33 ELSE 5, "r2")
  /\ last' = [act |-> "Seal", k |-> k, scheme |-> s, n |-> n, expect |-> [valid |-> Valid(Mk(k, s, n, "r1")), len |-> FrameLen(n)]]
  /\ phase' = "made" /\ UNCHANGED deal

\* the components that make up the ciphertext's bytes
Bytes(c) == <<c.u, c.vmask, c.vn, c.vtam, c.vown, c.craft, c.w, c.scheme>>
Touched(c) == Bytes(c) # Bytes(Mk(c.k, c.scheme0, c.vn0, "r1"))
PayloadOps == {"VFlip", "VTrunc", "VExtend", "VSwap", "CraftFrame"}
ATamper(o) ==
  /\ phase = "made" /\ Len(ct.ops) < Depth /\ "tamper" \in Modes
  \* at most one move on the payload (two could cancel byte-wise, e.g. truncate then extend by the same byte)
  /\ (o.op \in PayloadOps => (ct.vtam = "" /\ ct.vown /\ ~ct.craft))
  /\ ct' = [ApplyOp(ct, o, other) EXCEPT !.ops = Append(@, o)]
  /\ last' = Quiet /\ UNCHANGED <<phase, other, deal>>

AIsValid ==
  /\ phase = "made"
  /\ last' = [act |-> "IsValid", ct |-> CtRec(ct), expect |-> [valid |-> Valid(ct)], touched |-> Touched(ct),
              idpt |-> (GIsId(ct.u) \/ GIsId(ct.w))]
  /\ phase' = "judged" /\ UNCHANGED <<ct, other, deal>>

ADecrypt(k2, via) ==          \* via = "sk" (ct.decrypt(sk)) or "key" (sk.sign_decryption_key(ct).decrypt(ct))
  /\ phase = "made"
  /\ LET out == IF via = "sk" THEN Decrypt(ct, SkOf(k2)) ELSE DecryptKey(ct, GScale(SkOf(k2), ct.u)) IN
       last' = [act |-> "Decrypt", ct |-> CtRec(ct), k2 |-> k2, via |-> via, expect |-> [out |-> out],
                touched |-> Touched(ct), rightkey |-> (k2 = ct.k), idpt |-> (GIsId(ct.u) \/ GIsId(ct.w))]
  /\ phase' = "judged" /\ UNCHANGED <<ct, other, deal>>

\* ---- threshold decryption (C12) ----
ASplit(t, n) ==
  /\ phase = "made" /\ ct.ops = <<>> /\ "threshold" \in Modes
  /\ deal' = [k |-> ct.k, t |-> t, n |-> n]
  /\ last' = Quiet /\ phase' = "dealt" /\ UNCHANGED <<ct, other>>

IdSubs == {"none", "share", "key", "w", "share+key", "share+w", "key+w", "all"}
HasSub(idsub, x) == CASE x = "share" -> idsub \in {"share", "share+key", "share+w", "all"}
                      [] x = "key"   -> idsub \in {"key", "share+key", "key+w", "all"}
                      [] x = "w"     -> idsub \in {"w", "share+w", "key+w", "all"}
\* lin = <<a, b, c>>: the adversary shifts the share and the ciphertext together by public amounts,
\*   share' = share + a PK_j + b P,   w' = w + c H(u, v)
\* (linear relations between the operands of the check: what a product of several pairing equations, or an equation
\* with a term dropped, would let through).  The share is then nobody's decryption share, so the property has no
\* opinion; the outcome is the code's equation  e(H, share') = e(w', PK_j),  which holds iff a = c and b = 0.
Lins == {<<0, 0, 0>>, <<1, 0, 1>>, <<1, 0 - 1, 1>>, <<0, 1, 0>>, <<1, 0, 0>>, <<0, 0, 1>>, <<0 - 1, 1, 0 - 1>>, <<1, 1, 1>>}
AShareVerify(i, j, which, idsub, lin) ==     \* share i of ct, key share j, presented with ct or with the other ciphertext;
  /\ phase = "dealt"                    \* idsub: which operands the adversary replaced by the identity point
  /\ (lin = <<0, 0, 0>> \/ (idsub = "none" /\ which = "same" /\ i = j))
  /\ LET c0 == IF which = "same" THEN ct ELSE other
         c1 == IF HasSub(idsub, "w") THEN [c0 EXCEPT !.w = GId] ELSE c0
         ks == IF HasSub(idsub, "key") THEN GId ELSE GScale(FVal0(deal, j), GenK)
         c  == [c1 EXCEPT !.w = GAdd(c1.w, GMulInt(lin[3], Hs(TagOf(c1.scheme), HashIn(c1))))]
         sh0 == IF HasSub(idsub, "share") THEN GId ELSE DShare(deal, i, ct)
         sh == GAdd(sh0, GAdd(GMulInt(lin[1], ks), GMulInt(lin[2], GenK)))
         ok == ShareVerify(sh, ks, c) IN
       last' = [act |-> "ShareVerify", ct |-> CtRec(ct), t |-> deal.t, n |-> deal.n, i |-> i, j |-> j, which |-> which, idsub |-> idsub,
                lin |-> lin,
                expect |-> [res |-> IF ok THEN "Ok" ELSE "Err"], ideal |-> (i = j /\ which = "same" /\ idsub = "none")]
  /\ phase' = "judged" /\ UNCHANGED <<ct, other, deal>>

E(id, src, ok) == [id |-> id, src |-> src, ok |-> ok, scheme |-> ""]
InjSeqs(n) == {s \in UNION {[1..l -> 1..n] : l \in 0..n} : \A i, j \in 1..Len(s) : i # j => s[i] # s[j]}
ShareSeqs(n) == {[i \in 1..Len(s) |-> E(s[i], s[i], TRUE)] : s \in InjSeqs(n)}
                \cup {<<E(1, 1, TRUE), E(1, 1, TRUE)>>, <<E(1, 1, TRUE), E(0, 2, TRUE)>>, <<E(1, 1, TRUE), E(2, 2, FALSE)>>,
                      <<E(1, 1, TRUE), E(2, 2, TRUE), E(1, 1, TRUE)>>,
                      \* a blank container (identifier 0, all-zero payload) next to enough honest shares
                      <<E(1, 1, TRUE), E(2, 2, TRUE), E(0, 2, FALSE)>>, <<E(0, 1, FALSE), E(1, 1, TRUE), E(2, 2, TRUE)>>}

ADecryptShares(es, route) ==     \* route = "direct" (decrypt_with_shares) | "key" (from_shares then decrypt)
  /\ phase = "dealt"
  /\ LET out == IF route = "direct" THEN DecryptWithShares(deal, es, ct) ELSE KeyFromShares(deal, es, ct) IN
       last' = [act |-> "DecryptShares", ct |-> CtRec(ct), t |-> deal.t, n |-> deal.n, entries |-> es, route |-> route,
                expect |-> [out |-> out], ideal |-> IdealWhole(es, deal.t)]
  /\ phase' = "judged" /\ UNCHANGED <<ct, other, deal>>

\* beyond the exhaustive grid: (t,n) up to 255 by subset shape, outcome from the provenance layer alone
ADecryptSharesBig(t, n, sh, route) ==
  /\ phase = "made" /\ ct.ops = <<>> /\ "threshold" \in Modes
  /\ LET ids == ShapeIds(sh, t, n)
         es == [i \in 1..Len(ids) |-> E(ids[i], ids[i], TRUE)]
         whole == IdealWhole(es, t) IN
       last' = [act |-> "DecryptShares", ct |-> CtRec(ct), t |-> t, n |-> n, entries |-> es, route |-> route, layer |-> "ideal",
                expect |-> [out |-> IF Len(es) < 2 THEN (IF route = "direct" THEN "None" ELSE "Err") ELSE IF whole THEN "Some" ELSE "NotOriginal"],
                ideal |-> whole]
  /\ phase' = "judged" /\ UNCHANGED <<ct, other, deal>>

AReset == phase = "judged" /\ phase' = "idle" /\ ct' = NoCt /\ other' = NoCt /\ deal' = NoDeal /\ last' = Quiet

TN == {<<t, n>> \in (2..MaxN) \X (2..MaxN) : t <= n}
NZKeys == Keys \ {0}

Next ==
  \/ (phase = "idle" /\ \E k \in NZKeys, s \in Schemes, n \in Lens : ASeal(k, s, n))
  \/ (phase = "made" /\ \E o \in Ops(ct) : ATamper(o))
  \/ AIsValid
  \/ (phase = "made" /\ \E k2 \in NZKeys, via \in {"sk", "key"} : ADecrypt(k2, via))
  \/ (phase = "made" /\ \E tn \in TN : ASplit(tn[1], tn[2]))
  \/ (phase = "dealt" /\ \E i, j \in 1..deal.n, which \in {"same", "other"}, idsub \in IdSubs, lin \in Lins : AShareVerify(i, j, which, idsub, lin))
  \/ (phase = "dealt" /\ \E es \in ShareSeqs(deal.n), route \in {"direct", "key"} : ADecryptShares(es, route))
  \/ (phase = "made" /\ ct.vn = 5 /\ \E tn \in BigTN, sh \in Shapes, route \in {"direct", "key"} : ADecryptSharesBig(tn[1], tn[2], sh, route))
  \/ AReset

Spec == Init /\ [][Next]_vars

\* ------------------------------------------------------------ properties
Judged(a) == last.act = a

\* C11: untouched => valid and decrypts to M under the matching key
RoundTrip ==
  /\ Judged("Seal") => last.expect.valid
  /\ (Judged("IsValid") /\ ~last.touched) => last.expect.valid
  /\ (Judged("Decrypt") /\ ~last.touched /\ last.rightkey) => last.expect.out = "Some"
\* C11: any change to any component => invalid and nothing (a re-sealed header is a new, valid
\* ciphertext of the adversary's own making: it opens to noise, never to M)
TamperRejected ==
  /\ (Judged("IsValid") /\ last.touched /\ \A i \in 1..Len(last.ct.ops) : last.ct.ops[i].op \notin {"Reseal", "CraftFrame"}) => ~last.expect.valid
  /\ (Judged("Decrypt") /\ last.touched) => last.expect.out # "Some"
  /\ (Judged("Decrypt") /\ last.touched /\ \A i \in 1..Len(last.ct.ops) : last.ct.ops[i].op \notin {"Reseal", "CraftFrame"}) => last.expect.out = "None"
\* C17: a crafted frame inside a valid ciphertext is refused without aborting
CraftRefused == (Judged("Decrypt") /\ last.rightkey /\ \E i \in 1..Len(last.ct.ops) : last.ct.ops[i].op = "CraftFrame" /\ last.ct.ops[i].arg # "overlong") => last.expect.out = "None"
\* C11: another key never yields the original message
WrongKey == (Judged("Decrypt") /\ ~last.rightkey) => last.expect.out # "Some"
\* C04: an identity point in the header is never valid
NoIdentity == ((Judged("IsValid") /\ last.idpt) => ~last.expect.valid) /\ ((Judged("Decrypt") /\ last.idpt) => last.expect.out = "None")
\* C12: share verification is exact, for all three schemes
ShareExact == (Judged("ShareVerify") /\ last.lin = <<0, 0, 0>>) => ((last.expect.res = "Ok") <=> last.ideal)
\* a share and a ciphertext shifted together pass exactly when the shifts are a multiple of (PK_j, H): the single equation
\* the code checks (it does not re-check the ciphertext's own validity - IsValid does)
ShareLinear == (Judged("ShareVerify") /\ last.lin # <<0, 0, 0>>) => ((last.expect.res = "Ok") <=> (last.lin[1] = last.lin[3] /\ last.lin[2] = 0))
\* C04: a decryption share, key share or W that is the identity never verifies
ShareNoIdentity == (Judged("ShareVerify") /\ last.idsub # "none") => last.expect.res = "Err"
\* C12: >= t distinct shares decrypt to M by both routes; fewer never do
ThresholdOpen ==
  Judged("DecryptShares") =>
    /\ last.ideal => last.expect.out = "Some"
    /\ ~last.ideal => last.expect.out # "Some"

EmitVec == (Emit /\ last.act # "-") => PrintT(<<"VEC", ToJson([spec |-> "SignCrypt"] @@ last)>>)
TypeOK == phase \in {"idle", "made", "dealt", "judged"}
=============================================================================
