SPECIFICATION Spec
CONSTANTS
  Keys <- KeysQ
  Lens <- LensQ
  Depth = 2
  MaxN = 4
  BigTN <- BigQ
  Modes <- ModesAll
  Deviations <- NoDev
  Emit = FALSE
INVARIANTS TypeOK RoundTrip TamperRejected WrongKey CraftRefused NoIdentity ShareExact ShareLinear ShareNoIdentity ThresholdOpen EmitVec
CHECK_DEADLOCK FALSE
