SPECIFICATION Spec
CONSTANTS
  Keys <- KeysQ
  Plains <- PlainsQ
  MaxSum = 3
  MaxN = 3
  BigTN <- BigQ
  Depth = 1
  Emit = TRUE
INVARIANTS TypeOK Homomorphic ProofExact VerifyDecryptExact SharesExact SealRefusesIdentityKey EmitVec
CHECK_DEADLOCK FALSE
