----------------------------- MODULE Trace_Rng -----------------------------
(***************************************************************************)
(* implementation -> spec for C20.  The harness calls every randomized     *)
(* entry point N times with identical arguments on T threads in P          *)
(* processes and logs, per call, the observables that are injective in the *)
(* call's ephemeral values (hashes of: key bytes; share vector; U and V;   *)
(* c1 and the recomputed r1; commitment u and secret x; challenge bytes)   *)
(* and, through the get_crypto_rng hook, the fingerprint of every          *)
(* generator handed out.  This is the Draw action of Rng: it is enabled    *)
(* only for values never output before, so the trace is accepted iff no    *)
(* ephemeral and no generator repeats - within a thread, across threads,   *)
(* across processes.                                                       *)
(***************************************************************************)
EXTENDS Naturals, Sequences, FiniteSets, TLC, Json, IOUtils, TLCExt

Rec == ndJsonDeserialize(IOEnv.TRACE)
VARIABLES l, drawn, gens
tvars == <<l, drawn, gens>>

IsEvent(e) == l <= Len(Rec) /\ Rec[l].ev = e /\ l' = l + 1

Entries == {"keygen", "keygen_facade", "keygen_enum", "split", "signcrypt", "timelock", "elgamal", "elgamal_proof", "pok_commit", "pok_ts", "challenge"}

\* Draw: every observable of the call is new, and the observables of one call are pairwise distinct
TCall ==
  /\ IsEvent("Call")
  /\ LET e == Rec[l]
         s == {e.eph[i] : i \in 1..Len(e.eph)} IN
       /\ e.entry \in Entries
       /\ Len(e.eph) >= 1
       /\ Cardinality(s) = Len(e.eph)
       /\ s \cap drawn = {}
       /\ drawn' = drawn \cup s
  /\ UNCHANGED gens

\* BeginCall: the generator object is one no call ever had
TGen ==
  /\ IsEvent("Gen")
  /\ Rec[l].fp \notin gens
  /\ gens' = gens \cup {Rec[l].fp}
  /\ UNCHANGED drawn

\* every call obtained at least one generator (the hook saw as many generators as calls were made)
TSummary ==
  /\ IsEvent("Summary")
  /\ Rec[l].gens >= Rec[l].calls
  /\ UNCHANGED <<drawn, gens>>

\* volume run: `count` generator fingerprints of the cheapest entry point, merged over all processes and threads;
\* FreshGenerators at that volume is "all distinct" (the merge is done by the orchestration script, the verdict here)
TGenBulk ==
  /\ IsEvent("GenBulk")
  /\ Rec[l].count > 0
  /\ Rec[l].distinct = Rec[l].count
  /\ UNCHANGED <<drawn, gens>>

TraceInit == l = 1 /\ drawn = {} /\ gens = {}
TraceNext == TCall \/ TGen \/ TSummary \/ TGenBulk
TraceSpec == TraceInit /\ [][TraceNext]_tvars
TraceAccepted ==
  LET d == TLCGet("stats").diameter IN
    IF d - 1 = Len(Rec) THEN TRUE
    ELSE Print(<<"TRACE-REJECTED at event", d, IF d <= Len(Rec) THEN ToJson(Rec[d]) ELSE "-">>, FALSE)
=============================================================================
