------------------------------- MODULE ThOps -------------------------------
(***************************************************************************)
(* Pure operators of threshold sharing (no state).                         *)
(*   vsss-rs 4.3.8 shamir::split_secret / combine_shares(_group) as used   *)
(*   by src/secret_key.rs (split, combine), src/public_key.rs,             *)
(*   src/signature.rs (from_shares), src/traits/sig_core.rs                *)
(*   (core_partial_sign and the combiners), src/lib.rs (containers).     *)
(*                                                                         *)
(* A dealt polynomial is  f(x) = secret + a1 x + ... + a_{t-1} x^{t-1}     *)
(* with a_j atoms (library randomness).  A share entry handed to a         *)
(* combiner is [id, src, ok]: the identifier byte it carries, the          *)
(* participant whose payload it carries (id = src when untouched), and     *)
(* whether the payload still decodes.                                      *)
(***************************************************************************)
EXTENDS SigOps

RECURSIVE IPow(_,_)
IPow(b, e) == IF e = 0 THEN 1 ELSE b * IPow(b, e - 1)

CoefAtom(tagname, j) == tagname \o "_" \o ToString(j)

\* f(i) as a polynomial over the atoms: secret + sum_j a_j i^j
ShareVal(secret, tagname, t, i) ==
  LET RECURSIVE S(_)
      S(j) == IF j = 0 THEN secret ELSE PAdd(S(j - 1), PScaleR(RI(IPow(i, j)), PAtom(CoefAtom(tagname, j))))
  IN S(t - 1)

\* shamir::check_params + u8 identifiers
SplitOk(t, n) == t >= 2 /\ n >= t /\ n <= 255
SplitRes(t, n) == IF n < t THEN Err("VsssError") ELSE IF t < 2 THEN Err("VsssError")
                  ELSE IF n > 255 THEN Err("VsssError") ELSE Ok

\* Lagrange basis at 0 for position i of the identifier sequence xs:  prod_{j # i} x_j / (x_j - x_i)
Lambda(xs, i) ==
  LET RECURSIVE L(_)
      L(j) == IF j = 0 THEN RI(1)
              ELSE IF j = i THEN L(j - 1)
              ELSE RMul(L(j - 1), RMul(RI(xs[j]), RInv(RI(xs[j] - xs[i]))))
  IN L(Len(xs))

\* ShareSetCombiner::combine, guards in source order.
\* entries: sequence of [id, ok]; vals: sequence of values (Poly or group element);
\* zero, add(a,b), scale(q,v) give the value algebra.
CombineGuard(entries) ==
  IF Len(entries) < 2 THEN Err("VsssError")
  ELSE IF \E i \in 1..Len(entries) : entries[i].id = 0 \/ ~entries[i].ok THEN Err("VsssError")
  ELSE IF \E i, j \in 1..Len(entries) : i < j /\ entries[i].id = entries[j].id THEN Err("VsssError")
  ELSE Ok

CombinePoly(entries, vals) ==      \* scalar shares -> Poly
  LET xs == [i \in 1..Len(entries) |-> entries[i].id]
      RECURSIVE S(_)
      S(i) == IF i = 0 THEN PZero ELSE PAdd(S(i - 1), PScaleR(Lambda(xs, i), vals[i]))
  IN S(Len(entries))

CombineGroup(entries, vals) ==     \* point shares -> group element
  LET xs == [i \in 1..Len(entries) |-> entries[i].id]
      RECURSIVE S(_)
      S(i) == IF i = 0 THEN GId ELSE GAdd(S(i - 1), GScale(PRat(Lambda(xs, i)), vals[i]))
  IN S(Len(entries))

\* ---- subset shapes for (t,n) beyond the exhaustive grid (identifiers up to 255) ----
Shapes == {"first_t", "last_t", "first_t_minus_1", "last_t_minus_1", "first_t_plus_1", "all_n", "evens", "two"}
ShapeIds(sh, t, n) ==
  CASE sh = "first_t"         -> [i \in 1..t |-> i]
    [] sh = "last_t"          -> [i \in 1..t |-> n - t + i]
    [] sh = "first_t_minus_1" -> [i \in 1..(t - 1) |-> i]
    [] sh = "last_t_minus_1"  -> [i \in 1..(t - 1) |-> n - t + 1 + i]
    [] sh = "first_t_plus_1"  -> [i \in 1..(IF t + 1 <= n THEN t + 1 ELSE t) |-> i]
    [] sh = "all_n"           -> [i \in 1..n |-> n + 1 - i]
    [] sh = "evens"           -> [i \in 1..(n \div 2) |-> 2 * i]
    [] sh = "two"             -> <<n, 1>>

\* ---- ideal layer: provenance only ----
\* the entries recombine to the whole-key value iff they are untouched, distinct, non-zero and
\* at least t of them
Honest(entries) == \A i \in 1..Len(entries) : entries[i].ok /\ entries[i].id = entries[i].src /\ entries[i].id # 0 /\ entries[i].scheme = entries[1].scheme
DistinctIds(entries) == \A i, j \in 1..Len(entries) : i # j => entries[i].id # entries[j].id
IdealWhole(entries, t) == Honest(entries) /\ DistinctIds(entries) /\ Len(entries) >= t
=============================================================================
