SPECIFICATION Spec
CONSTANTS
  Keys <- KeysPT
  MsgRs <- MsgsP
  Modes <- ModesPop
  Depth = 2
  AggN = 2
  Emit = TRUE
INVARIANTS TypeOK Complete Exact NoIdentityAccepted Separated AggExact AggRefusal MultiExact EmitVec
CHECK_DEADLOCK FALSE
