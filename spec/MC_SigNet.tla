----------------------------- MODULE MC_SigNet -----------------------------
EXTENDS SigNet
A(c) == [c |-> c, k |-> 0]
PKC(k) == [c |-> "pk", k |-> k]
\* quick grids
KeysQ == {0, 1, -1}
MsgsQ == {<<>>, <<A("a")>>, <<A("a"), A("b")>>, <<PKC(1), A("a")>>, <<PKC(1)>>}
\* honest-only instance (Depth 0): more keys, and messages that coincide with other things the library handles -
\* the signer's own public-key bytes alone / twice / followed by text, another key's bytes, the library's own tags
KeysH == {0, 1, 2, -1, 128}
MsgsH == {<<>>, <<A("a")>>, <<A("a"), A("b")>>, <<PKC(1)>>, <<PKC(1), A("a")>>, <<PKC(1), PKC(1)>>, <<PKC(2)>>, <<A("a"), PKC(1)>>,
          <<A("dst:NUL")>>, <<A("dst:AUG")>>, <<A("dst:POP")>>, <<A("dst:POPPROOF")>>, <<A("dst:POP"), A("a")>>}
KeysP == {0, 1, 2, -1}
MsgsP == {<<>>, <<A("a")>>}
KeysT == {0, 1, 2, -1}
MsgsT == {<<>>, <<A("a")>>, <<A("b")>>, <<A("a"), A("b")>>, <<PKC(1)>>, <<PKC(1), A("a")>>}
KeysPT == {0, 1, 2, 3, -1, -2}
\* aggregate / multi grids (smaller alphabets, longer lists)
KeysA == {1, -1}
MsgsA == {<<A("a")>>, <<A("b")>>, <<>>}
KeysAT == {1, 2, -1}
MsgsAT == {<<A("a")>>, <<A("b")>>, <<A("c")>>, <<>>}
ModesSingle == {"single"}
ModesKeygen == {"keygen", "pop"}
ModesPop == {"pop"}
ModesAgg == {"agg"}
ModesMulti == {"multi"}
=============================================================================
