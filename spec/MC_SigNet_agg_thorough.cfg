SPECIFICATION Spec
CONSTANTS
  Keys <- KeysAT
  MsgRs <- MsgsAT
  Modes <- ModesAgg
  Depth = 1
  AggN = 3
  Emit = TRUE
INVARIANTS TypeOK Complete Exact NoIdentityAccepted Separated AggExact AggRefusal MultiExact EmitVec
CHECK_DEADLOCK FALSE
