SPECIFICATION Spec
CONSTANTS
  Keys <- KeysA
  MsgRs <- MsgsA
  Modes <- ModesAgg
  Depth = 1
  AggN = 4
  Emit = TRUE
INVARIANTS TypeOK Complete Exact NoIdentityAccepted Separated AggExact AggRefusal MultiExact EmitVec
CHECK_DEADLOCK FALSE
