------------------------------ MODULE ElGamal ------------------------------
(***************************************************************************)
(* ElGamal encryption of scalars in the exponent, additive homomorphism,   *)
(* proofs of correct encryption, threshold decryption.  Serves C14 (and    *)
(* the ElGamal sites of C04).                                              *)
(*   src/traits/elgamal.rs, src/elgamal_ciphertext.rs, src/elgamal_proof.rs*)
(*   src/elgamal_decryption_share.rs, src/public_key.rs                    *)
(*                                                                         *)
(* encrypt:  b <- random; c1 = b P; c2 = b pk + m Hm                       *)
(* proof:    rho <- random; r1 = rho P; r2 = b Hm + rho pk;                *)
(*           ch = FS(P, pk, Hm, c1, c2, r1, r2); mp = b + ch m; bp = rho + ch b *)
(* verify:   r1' = -ch c1 + bp P; r2' = -ch c2 + mp Hm + bp pk;            *)
(*           accept iff FS(P, pk, Hm, c1, c2, r1', r2') = ch               *)
(* FS is a random oracle: the challenge of an honest proof is an atom, and *)
(* FS(tuple') equals a presented challenge only if tuple' is the tuple of  *)
(* an honest proof and the challenge is that proof's.                      *)
(***************************************************************************)
EXTENDS ThOps, Json

CONSTANTS Keys, Plains, MaxSum, MaxN, BigTN, Depth, Emit

VARIABLES phase, pf, last
vars == <<phase, pf, last>>

\* ------------------------------------------------------------ mechanical
Enc(pk, m, ba) == [c1 |-> GScale(PAtom(ba), GenK), c2 |-> GAdd(GScale(PAtom(ba), pk), GScale(PConst(m), GenM))]
SealRes(pk) == IF GIsId(pk) THEN Err("InvalidInputs") ELSE Ok
Decrypt(sk, c) == GSub(c.c2, GScale(sk, c.c1))
CtAdd(a, b) == [c1 |-> GAdd(a.c1, b.c1), c2 |-> GAdd(a.c2, b.c2)]

\* honest proof number i (atoms b<i>, rho<i>, ch<i>)
Proof(pk, m, i) ==
  LET b == PAtom("b" \o ToString(i))  rho == PAtom("rho" \o ToString(i))  ch == PAtom("ch" \o ToString(i))
      c == Enc(pk, m, "b" \o ToString(i)) IN
  [c1 |-> c.c1, c2 |-> c.c2, mp |-> PAdd(b, PMul(ch, PConst(m))), bp |-> PAdd(rho, PMul(ch, b)), ch |-> ch]
\* the oracle's table: transcript tuple and challenge of honest proof i
Oracle(pk, m, i) ==
  LET b == PAtom("b" \o ToString(i))  rho == PAtom("rho" \o ToString(i))  p == Proof(pk, m, i) IN
  [tuple |-> <<pk, p.c1, p.c2, GScale(rho, GenK), GAdd(GScale(b, GenM), GScale(rho, pk))>>, ch |-> p.ch]

\* BlsElGamal::verify_proof, guards in source order
VerifyProof(pk, p, table) ==
  IF GIsId(pk) \/ GIsId(p.c1) \/ GIsId(p.c2) THEN Err("InvalidInputs")
  ELSE IF PIsZero(p.mp) \/ PIsZero(p.bp) \/ PIsZero(p.ch) THEN Err("InvalidInputs")
  ELSE LET nch == PNeg(p.ch)
           r1 == GAdd(GScale(nch, p.c1), GScale(p.bp, GenK))
           r2 == GAdd(GAdd(GScale(nch, p.c2), GScale(p.mp, GenM)), GScale(p.bp, pk))
           t  == <<pk, p.c1, p.c2, r1, r2>>
       IN IF \E e \in table : e.tuple = t /\ e.ch = p.ch THEN Ok ELSE Err("InvalidInputs")

\* BlsElGamal::verify_and_decrypt
VerifyAndDecrypt(sk, p, table) ==
  IF PIsZero(sk) THEN [r |-> Err("InvalidInputs"), v |-> GId]
  ELSE LET r == VerifyProof(GScale(sk, GenK), p, table) IN
       IF IsOk(r) THEN [r |-> Ok, v |-> Decrypt(sk, p)] ELSE [r |-> r, v |-> GId]

\* ------------------------------------------------------------ adversary on a proof
POp(field, how) == [field |-> field, how |-> how]
ApplyP(p, o, oth) ==
  LET pt(x, ox) == CASE o.how = "add" -> GAdd(x, GenK) [] o.how = "neg" -> GNeg(x) [] o.how = "swap" -> ox [] o.how = "zero" -> GId
      scl(x, ox) == CASE o.how = "add" -> PAdd(x, PConst(1)) [] o.how = "neg" -> PNeg(x) [] o.how = "swap" -> ox [] o.how = "zero" -> PZero
  IN CASE o.field = "c1" -> [p EXCEPT !.c1 = pt(@, oth.c1)]
       [] o.field = "c2" -> [p EXCEPT !.c2 = pt(@, oth.c2)]
       [] o.field = "mp" -> [p EXCEPT !.mp = scl(@, oth.mp)]
       [] o.field = "bp" -> [p EXCEPT !.bp = scl(@, oth.bp)]
       [] o.field = "ch" -> [p EXCEPT !.ch = scl(@, oth.ch)]
POps == {POp(f, h) : f \in {"c1", "c2", "mp", "bp", "ch"}, h \in {"add", "neg", "swap", "zero"}}

NZKeys == Keys \ {0}
\* public-key recipes offered to the verifier
PkOp(op, n, k) == [op |-> op, n |-> n, k |-> k]
ApplyPkOp(p, o) == CASE o.op = "Neg" -> GNeg(p) [] o.op = "AddGen" -> GAdd(p, GMulInt(o.n, GenK)) [] o.op = "Identity" -> GId
DenPk(pr) == IF pr.ops = <<>> THEN PkOf(pr.k) ELSE ApplyPkOp(PkOf(pr.k), pr.ops[1])
PkRs == {[k |-> k, ops |-> <<>>] : k \in NZKeys}
        \cup {[k |-> k, ops |-> <<o>>] : k \in NZKeys, o \in {PkOp("Neg", 0, 0), PkOp("Identity", 0, 0), PkOp("AddGen", 1, 0)}}

\* ------------------------------------------------------------ system
Quiet == [act |-> "-"]
NoPf == [k |-> 0, m |-> 0, m2 |-> 0, ops |-> <<>>, p |-> [c1 |-> GId, c2 |-> GId, mp |-> PZero, bp |-> PZero, ch |-> PZero]]
Init == phase = "idle" /\ pf = NoPf /\ last = Quiet

\* plain encryption / decryption / homomorphic sums
AEncrypt(k, m) ==
  /\ phase = "idle"
  /\ last' = [act |-> "EGEncrypt", k |-> k, m |-> m, expect |-> [res |-> SealRes(PkOf(k)).t]]
  /\ phase' = "judged" /\ UNCHANGED pf

\* how the blinders of the summands relate (seal_scalar takes a caller-chosen blinder; a public constant enters a
\* sum as the trivial ciphertext (identity, m Hm)): all fresh; the second cancels the first, so a partial sum has
\* c1 = identity while carrying a plaintext; a trivial ciphertext first / last
BPlans == {"fresh", "cancel", "trivfirst", "trivlast"}
BlinderOf(plan, i, l) ==
  CASE plan = "cancel" /\ i = 2 -> PNeg(PAtom("b1"))
    [] plan = "trivfirst" /\ i = 1 /\ l >= 2 -> PZero
    [] plan = "trivlast" /\ i = l /\ l >= 2 -> PZero
    [] OTHER -> PAtom("b" \o ToString(i))
EncB(pk, m, b) == [c1 |-> GScale(b, GenK), c2 |-> GAdd(GScale(b, pk), GScale(PConst(m), GenM))]

ADecryptSum(k, ms, k2, plan) ==
  /\ phase = "idle"
  /\ LET cts == [i \in 1..Len(ms) |-> EncB(PkOf(k), ms[i], BlinderOf(plan, i, Len(ms)))]
         RECURSIVE Sum(_)
         Sum(i) == IF i = 1 THEN cts[1] ELSE CtAdd(Sum(i - 1), cts[i])
         RECURSIVE MSum(_)
         MSum(i) == IF i = 0 THEN 0 ELSE MSum(i - 1) + ms[i]
         d == Decrypt(SkOf(k2), Sum(Len(ms))) IN
       last' = [act |-> "EGDecrypt", k |-> k, ms |-> ms, k2 |-> k2, plan |-> plan,
                expect |-> [eq |-> (d = GScale(PConst(MSum(Len(ms))), GenM))], rightkey |-> (k = k2),
                unblinded |-> GIsId(Sum(Len(ms)).c1)]
  /\ phase' = "judged" /\ UNCHANGED pf

\* proofs
AProve(k, m, m2) ==
  /\ phase = "idle" /\ m # m2
  /\ pf' = [k |-> k, m |-> m, m2 |-> m2, ops |-> <<>>, p |-> Proof(PkOf(k), m, 1)]
  /\ last' = Quiet /\ phase' = "made"

Table(f) == {Oracle(PkOf(f.k), f.m, 1), Oracle(PkOf(f.k), f.m2, 2)}

ATamper(o) ==
  /\ phase = "made" /\ Len(pf.ops) < Depth
  /\ pf' = [pf EXCEPT !.p = ApplyP(@, o, Proof(PkOf(pf.k), pf.m2, 2)), !.ops = Append(@, o)]
  /\ last' = Quiet /\ UNCHANGED phase

AVerify(pr) ==        \* pr = pk recipe [k, ops] as in SigNet
  /\ phase = "made"
  /\ LET r == VerifyProof(DenPk(pr), pf.p, Table(pf)) IN
       last' = [act |-> "EGVerify", k |-> pf.k, m |-> pf.m, m2 |-> pf.m2, ops |-> pf.ops, pk |-> pr,
                expect |-> [res |-> r.t], touched |-> (pf.p # Proof(PkOf(pf.k), pf.m, 1)), rightpk |-> (DenPk(pr) = PkOf(pf.k))]
  /\ phase' = "judged" /\ UNCHANGED pf

AVerifyDecrypt(k2) ==
  /\ phase = "made"
  /\ LET r == VerifyAndDecrypt(SkOf(k2), pf.p, Table(pf)) IN
       last' = [act |-> "EGVerifyDecrypt", k |-> pf.k, m |-> pf.m, m2 |-> pf.m2, ops |-> pf.ops, k2 |-> k2,
                expect |-> [res |-> r.r.t, eq |-> (IsOk(r.r) /\ r.v = GScale(PConst(pf.m), GenM))],
                touched |-> (pf.p # Proof(PkOf(pf.k), pf.m, 1)), rightkey |-> (k2 = pf.k)]
  /\ phase' = "judged" /\ UNCHANGED pf

\* threshold decryption of a plain ciphertext
E(id, src, ok) == [id |-> id, src |-> src, ok |-> ok, scheme |-> ""]
InjSeqs(n) == {s \in UNION {[1..l -> 1..n] : l \in 0..n} : \A i, j \in 1..Len(s) : i # j => s[i] # s[j]}
ShareSeqs(n) == {[i \in 1..Len(s) |-> E(s[i], s[i], TRUE)] : s \in InjSeqs(n)}
                \cup {<<E(1, 1, TRUE), E(1, 1, TRUE)>>, <<E(1, 1, TRUE), E(0, 2, TRUE)>>, <<E(1, 1, TRUE), E(2, 2, FALSE)>>,
                      <<E(1, 1, TRUE), E(2, 2, TRUE), E(0, 2, FALSE)>>, <<E(0, 1, FALSE), E(1, 1, TRUE), E(2, 2, TRUE)>>}
AShares(k, m, t, n, es) ==
  /\ phase = "idle"
  /\ LET c == Enc(PkOf(k), m, "b1")
         g == CombineGuard(es)
         key == CombineGroup(es, [i \in 1..Len(es) |-> GScale(ShareVal(SkOf(k), "a", t, es[i].src), c.c1)]) IN
       last' = [act |-> "EGShares", k |-> k, m |-> m, t |-> t, n |-> n, entries |-> es,
                expect |-> [res |-> g.t, eq |-> (IsOk(g) /\ GSub(c.c2, key) = GScale(PConst(m), GenM))],
                ideal |-> IdealWhole(es, t)]
  /\ phase' = "judged" /\ UNCHANGED pf

ASharesBig(k, m, t, n, sh) ==
  /\ phase = "idle"
  /\ LET ids == ShapeIds(sh, t, n)
         es == [i \in 1..Len(ids) |-> E(ids[i], ids[i], TRUE)]
         g == CombineGuard(es) IN
       last' = [act |-> "EGShares", k |-> k, m |-> m, t |-> t, n |-> n, entries |-> es, layer |-> "ideal",
                expect |-> [res |-> g.t, eq |-> (IsOk(g) /\ IdealWhole(es, t))], ideal |-> IdealWhole(es, t)]
  /\ phase' = "judged" /\ UNCHANGED pf

AReset == phase = "judged" /\ phase' = "idle" /\ pf' = NoPf /\ last' = Quiet

PlainSeqs == UNION {[1..l -> Plains] : l \in 1..MaxSum}
TN == {<<t, n>> \in (2..MaxN) \X (2..MaxN) : t <= n}

Next ==
  \/ (phase = "idle" /\ \E k \in Keys, m \in Plains : AEncrypt(k, m))
  \/ (phase = "idle" /\ \E k \in NZKeys, k2 \in NZKeys, ms \in PlainSeqs, plan \in BPlans : (plan = "fresh" \/ Len(ms) >= 2) /\ ADecryptSum(k, ms, k2, plan))
  \/ (phase = "idle" /\ \E k \in NZKeys, m \in Plains, m2 \in Plains : AProve(k, m, m2))
  \/ (phase = "made" /\ \E o \in POps : ATamper(o))
  \/ (phase = "made" /\ \E pr \in PkRs : AVerify(pr))
  \/ (phase = "made" /\ \E k2 \in Keys : AVerifyDecrypt(k2))
  \/ (phase = "idle" /\ \E k \in NZKeys, m \in Plains, tn \in TN : \E es \in ShareSeqs(tn[2]) : AShares(k, m, tn[1], tn[2], es))
  \/ (phase = "idle" /\ \E k \in NZKeys, tn \in BigTN, sh \in Shapes : ASharesBig(k, 1, tn[1], tn[2], sh))
  \/ AReset

Spec == Init /\ [][Next]_vars

\* ------------------------------------------------------------ properties (C14)
Judged(a) == last.act = a
\* decrypting (a sum of) ciphertexts with the matching key gives (the sum of) the plaintexts times Hm
\* (a sum whose blinders cancel is not blinded at all: every key "decrypts" it)
Homomorphic == Judged("EGDecrypt") => (last.expect.eq <=> (last.rightkey \/ last.unblinded))
\* a proof verifies iff it is untouched and presented for the recipient key
ProofExact == Judged("EGVerify") => ((last.expect.res = "Ok") <=> (~last.touched /\ last.rightpk))
\* verify-and-decrypt succeeds iff untouched and the key matches, and then yields m Hm
VerifyDecryptExact == Judged("EGVerifyDecrypt") =>
   /\ (last.expect.res = "Ok") <=> (~last.touched /\ last.rightkey)
   /\ (last.expect.res = "Ok") => last.expect.eq
\* t or more distinct shares give the decryption key; fewer give another point; bad sets are errors
SharesExact == Judged("EGShares") => (last.expect.eq <=> last.ideal)
SealRefusesIdentityKey == Judged("EGEncrypt") => ((last.expect.res = "Err") <=> (last.k = 0))

EmitVec == (Emit /\ last.act # "-") => PrintT(<<"VEC", ToJson([spec |-> "ElGamal"] @@ last)>>)
TypeOK == phase \in {"idle", "made", "judged"}
=============================================================================
