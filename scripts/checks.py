"""One function per property.  Each takes (run, vc) with vc = the vcheck module."""
import json
import os


def _profiles(tier, quick, thorough):
    return ",".join(str(x) for x in (quick if tier == "quick" else thorough))


def _tlc_stage(run, vc, module, cfg, needed, label=None, timeout=3000):
    r = vc.tlc(module, cfg, run.prop + "_" + cfg.replace(".cfg", ""), timeout=timeout)
    run.add_tlc(r, label or cfg)
    if r["violated"]:
        vc.spec_violation(run, r, module, cfg)
        return r, True
    vc.require_acts(r["vectors"], needed, cfg)
    return r, False


def _deep(run, vc, module, cfg):
    """thorough tier only: the same model two adversary moves deep, checked by TLC alone (no vectors are emitted:
    the depth-1 transitions are the ones replayed)"""
    if run.tier != "thorough":
        return False
    r = vc.tlc(module, cfg, run.prop + "_" + cfg.replace(".cfg", ""), timeout=7200)
    run.add_tlc(r, cfg + " (TLC only, adversary depth 2)")
    if r["violated"]:
        vc.spec_violation(run, r, module, cfg)
        return True
    return False


def _prep(run, vc, build="release", feature="blst"):
    vc.log("[%s] building harness from /repo working tree" % run.prop)
    vc.build_harness(build, feature)
    tables, rt = vc.export_tables()
    return tables


def _sample(run, vectors, n=3):
    step = max(1, len(vectors) // n)
    for v in vectors[::step][:n]:
        run.samples.append(v)


def _nontrivial_signet(v):
    if v["act"] in ("Verify", "PopVerify"):
        return not v.get("honest", False)
    if v["act"] == "AggVerify":
        return v.get("how") != "none"
    if v["act"] == "MultiVerify":
        return not (v.get("samekeys") and v.get("samemsg"))
    return v.get("expect", {}).get("res") != "Ok"


# ------------------------------------------------------------------------------------ C01
def c01(run, vc):
    tier = run.tier
    tables = _prep(run, vc)
    # the honest-only instance: no adversary moves, more keys, messages that coincide with key bytes and tags
    cfg = "MC_SigNet_honest_%s.cfg" % tier
    r, bad = _tlc_stage(run, vc, "MC_SigNet", cfg, ["Sign", ("Verify", "Ok")])
    if bad:
        return run.finish()
    vecs = [v for v in r["vectors"] if v["act"] == "Sign" or (v["act"] == "Verify" and v.get("honest"))]
    if not any(v["act"] == "Verify" for v in vecs):
        raise vc.ToolError("vacuity: no honest Verify vector")
    _sample(run, vecs)
    run.constants["message_atom_lengths"] = _profiles(tier, [1, 5, 33, 129, 257], [1, 5, 31, 32, 33, 127, 128, 129, 255, 256, 257, 4096, 65536])
    s = vc.replay(vecs, "c01", tables, profiles=run.constants["message_atom_lengths"])
    run.add_replay(s, "honest sign/verify, all schemes, both groups, all encodings", vecs, lambda v: True)
    _trace_signet(run, vc, tables, "c01", 400 if tier == "quick" else 4000)
    return run.finish(rule="vectors = every Sign transition and every honest Verify transition of the SigNet model (keys x schemes x messages incl. empty / pk-prefixed), executed for every message-atom length profile and both group assignments; a vector is one (key, scheme, message) tuple; derived executions = determinism, reference byte equality, encode/decode through bytes, serde_bare, serde_json, BE/LE",
                      assumptions=["symbolic model: generic group + random oracle (DESIGN.md 2.2)", "independent evaluator on bls12_381_plus"])


# ------------------------------------------------------------------------------------ C02
def c02(run, vc):
    tier = run.tier
    tables = _prep(run, vc)
    cfg = "MC_SigNet_single_%s.cfg" % tier
    r, bad = _tlc_stage(run, vc, "MC_SigNet", cfg, [("Verify", "Ok"), ("Verify", "Err")])
    if bad:
        return run.finish()
    vecs = [v for v in r["vectors"] if v["act"] == "Verify"]
    acc_related = [v for v in vecs if v["expect"]["res"] == "Ok" and not v.get("honest")]
    if not acc_related:
        raise vc.ToolError("vacuity: no related-but-valid tuple in the model")
    run.extra_cov["accepted_related_tuples"] = len(acc_related)
    _sample(run, vecs)
    run.samples.append(acc_related[0])
    s = vc.replay(vecs, "c02", tables, profiles=_profiles(tier, [5], [5, 129]), timeout=3000 if tier == "quick" else 14000)
    run.add_replay(s, "every Verify transition (honest, tampered, related-valid) on the real verifier and the independent CoreVerify", vecs, _nontrivial_signet)
    _trace_signet(run, vc, tables, "c02", 600 if tier == "quick" else 6000)
    return run.finish(rule="vectors = every Verify transition of the SigNet model: (signature base x <=Depth adversary derivations {Neg, AddGen, Scale, Relabel, Identity, AddSig}) x (public-key recipes incl. Neg/AddGen/AddKey/Identity) x (message); non-trivial = not the honest tuple; derived = independent CoreVerify decision, re-randomised projective representation, all bit flips / truncations / extension of the message for honest tuples",
                      assumptions=["symbolic model: generic group + random oracle (DESIGN.md 2.2)", "independent evaluator on bls12_381_plus"])


# ------------------------------------------------------------------------------------ C09
def c09(run, vc):
    tier = run.tier
    tables = _prep(run, vc)
    # the encodings of proofs and public keys: an altered text / byte string either does not decode or decodes to
    # another value (only the upper-case spelling of the hex text is the same value)
    _multi_stage(run, vc, tables, [("MC_Codec", "MC_Codec_%s.cfg" % tier, lambda v: v["act"] == "Codec" and v["type"] in ("ProofOfPossession", "PublicKey") and v["mut"]["kind"] in ("hex", "point", "trunc", "extend", "prepend"), "altered encodings of proofs of possession and public keys")])
    cfg = "MC_SigNet_pop_%s.cfg" % tier
    r, bad = _tlc_stage(run, vc, "MC_SigNet", cfg, ["PopProve", ("PopVerify", "Ok"), ("PopVerify", "Err"), "Verify"])
    if bad:
        return run.finish()
    vecs = r["vectors"]
    _sample(run, vecs)
    s = vc.replay(vecs, "c09", tables, profiles=_profiles(tier, [5], [1, 5, 129]))
    run.add_replay(s, "PopProve / PopVerify for all ordered key pairs and proof perturbations; PoP <-> signature confusion", vecs, _nontrivial_signet)
    _trace_signet(run, vc, tables, "c09", 300 if tier == "quick" else 3000, mix="pop")
    return run.finish(rule="vectors = every PopProve, PopVerify and PoP-as-signature / signature-as-PoP transition of the SigNet model (all ordered pairs of key recipes, all single perturbations of the proof point); non-trivial = not the honest pair",
                      assumptions=["symbolic model: generic group + random oracle (DESIGN.md 2.2)"])


# ------------------------------------------------------------------------------------ C06
def c06(run, vc):
    tier = run.tier
    tables = _prep(run, vc)
    cfg = "MC_SigNet_agg_%s.cfg" % tier
    r, bad = _tlc_stage(run, vc, "MC_SigNet", cfg, [("Aggregate", "Ok"), ("Aggregate", "Err"), ("AggVerify", "Ok"), ("AggVerify", "Err")], timeout=7200)
    if bad:
        return run.finish()
    vecs = r["vectors"]
    _sample(run, [v for v in vecs if v["act"] == "AggVerify"])
    s = vc.replay(vecs, "c06", tables, profiles=_profiles(tier, [5], [1, 5]))
    run.add_replay(s, "aggregate / aggregate-verify for every signer list and every single perturbation of the pair list", vecs, _nontrivial_signet)
    _trace_signet(run, vc, tables, "c06", 300 if tier == "quick" else 3000, mix="agg")
    return run.finish(rule="vectors = every Aggregate (incl. every scheme list of length 0..AggN) and AggVerify transition: signer lists of length 2..AggN x scheme x perturbation {none, reverse, rotate, alter message, alter key, identity key, drop, add, swap messages}; non-trivial = perturbed list",
                      assumptions=["symbolic model: generic group + random oracle (DESIGN.md 2.2)", "independent CoreAggregateVerify on bls12_381_plus"])


# ------------------------------------------------------------------------------------ C07
def c07(run, vc):
    tier = run.tier
    tables = _prep(run, vc)
    cfg = "MC_SigNet_multi_%s.cfg" % tier
    r, bad = _tlc_stage(run, vc, "MC_SigNet", cfg, [("Accumulate", "Ok"), ("Accumulate", "Err"), ("MultiVerify", "Ok"), ("MultiVerify", "Err")], timeout=7200)
    if bad:
        return run.finish()
    vecs = r["vectors"]
    _sample(run, [v for v in vecs if v["act"] == "MultiVerify"])
    s = vc.replay(vecs, "c07", tables, profiles=_profiles(tier, [5], [1, 5]))
    run.add_replay(s, "accumulate / multi-key / multi-verify for every signer list, key list and message", vecs, _nontrivial_signet)
    _trace_signet(run, vc, tables, "c07", 300 if tier == "quick" else 3000, mix="multi")
    return run.finish(rule="vectors = every Accumulate (incl. every scheme list) and MultiVerify transition: signer lists 2..AggN x {Basic, Pop} x every key list of length 1..AggN x message; non-trivial = key multiset or message differs from the signers'",
                      assumptions=["symbolic model: generic group + random oracle (DESIGN.md 2.2)"])


# ------------------------------------------------------------------------------------ C08
def _nontrivial_threshold(v):
    if v["act"] == "Combine":
        return not (v.get("ideal") and len(v["entries"]) == v["t"])
    return v.get("expect", {}).get("res") != "Ok" or v.get("i") != v.get("j")


def c08(run, vc):
    tier = run.tier
    tables = _prep(run, vc)
    cfg = "MC_Threshold_%s.cfg" % tier
    r, bad = _tlc_stage(run, vc, "MC_Threshold", cfg, [("Split", "Ok"), ("Split", "Err"), ("Combine", "Ok"), ("Combine", "Err"),
                                                         ("PartialSign", "Err"), ("PartialVerify", "Ok"), ("PartialVerify", "Err")], timeout=7200)
    if bad:
        return run.finish()
    vecs = r["vectors"]
    whole = sum(1 for v in vecs if v["act"] == "Combine" and v["expect"].get("whole"))
    other = sum(1 for v in vecs if v["act"] == "Combine" and v["expect"]["res"] == "Ok" and not v["expect"].get("whole"))
    if not whole or not other:
        raise vc.ToolError("vacuity: Combine never whole / never other")
    run.extra_cov["combine_whole"] = whole
    run.extra_cov["combine_ok_but_not_whole"] = other
    _sample(run, [v for v in vecs if v["act"] == "Combine"])
    s = vc.replay(vecs, "c08", tables, profiles="5")
    run.add_replay(s, "split / combine (key, public key, signature) / partial sign / partial verify on real shares", vecs, _nontrivial_threshold)
    _trace_proto(run, vc, tables, 1500 if tier == "quick" else 12000)
    return run.finish(rule="vectors = every transition of the Threshold model: all (t,n) with 2<=t<=n<=MaxN plus out-of-range parameters; for each deal every sequence without repetition of every length handed to each of the three combiners, plus one adversarial insertion (duplicate, zero id, rewritten id, corrupt payload, other scheme) at every position of every base sequence of length <= BaseLen; all (i,j) partial verifications; non-trivial = anything but exactly t untouched shares",
                      assumptions=["symbolic model: polynomial coefficients are atoms; Lagrange over exact rationals", "reference interpolation on bls12_381_plus"])


# ------------------------------------------------------------------------------------ C11 / C12
def _nontrivial_sc(v):
    if v["act"] in ("IsValid", "Decrypt"):
        return bool(v.get("touched")) or (v["act"] == "Decrypt" and not v.get("rightkey"))
    if v["act"] == "ShareVerify":
        return not v.get("ideal")
    if v["act"] == "DecryptShares":
        return not (v.get("ideal") and len(v["entries"]) == v["t"])
    return False


def c11(run, vc):
    tier = run.tier
    tables = _prep(run, vc)
    cfg = "MC_SignCrypt_%s.cfg" % tier
    r, bad = _tlc_stage(run, vc, "MC_SignCrypt", cfg, ["Seal", "IsValid", "Decrypt"], timeout=7200)
    if bad:
        return run.finish()
    if _deep(run, vc, "MC_SignCrypt", "MC_SignCrypt_deep.cfg"):
        return run.finish()
    vecs = [v for v in r["vectors"] if v["act"] in ("Seal", "IsValid", "Decrypt")]
    outs = {v["expect"].get("out") for v in vecs if v["act"] == "Decrypt"}
    if not {"Some", "None", "NotOriginal"} <= outs:
        raise vc.ToolError("vacuity: Decrypt outcomes seen: %s" % outs)
    _sample(run, [v for v in vecs if v["act"] == "Decrypt"])
    s = vc.replay(vecs, "c11", tables, profiles="5")
    run.add_replay(s, "seal / is_valid / decrypt (by key and by decryption key) for every length class, scheme, key and adversary move; V-region moves expanded to every bit", vecs, _nontrivial_sc)
    _trace_proto(run, vc, tables, 1500 if tier == "quick" else 12000)
    return run.finish(rule="vectors = every Seal, IsValid and Decrypt transition of the SignCrypt model: length classes x schemes x keys x <=Depth adversary moves on (U, V regions, W, scheme label, joint identity, re-sealed header) x decrypting key x route; derived executions = every bit of the touched V region / every truncation length, and the independent implementation's exact result; non-trivial = touched ciphertext or wrong key",
                      assumptions=["symbolic model; XOF mask opaque per point", "independent open on bls12_381_plus + SHAKE128 + hand-written LEB128 framing"])


def c12(run, vc):
    tier = run.tier
    tables = _prep(run, vc)
    cfg = "MC_SignCrypt_%s.cfg" % tier
    r, bad = _tlc_stage(run, vc, "MC_SignCrypt", cfg, [("ShareVerify", "Ok"), ("ShareVerify", "Err"), "DecryptShares"], timeout=7200)
    if bad:
        return run.finish()
    vecs = [v for v in r["vectors"] if v["act"] in ("ShareVerify", "DecryptShares")]
    outs = {v["expect"].get("out") for v in vecs if v["act"] == "DecryptShares"}
    if not {"Some", "None", "NotOriginal", "Err"} <= outs:
        raise vc.ToolError("vacuity: DecryptShares outcomes seen: %s" % outs)
    _sample(run, vecs)
    s = vc.replay(vecs, "c12", tables, profiles="5")
    run.add_replay(s, "decryption-share verification for all (share, key share, ciphertext) combinations and all three schemes; t-of-n decryption by both routes for every share sequence", vecs, _nontrivial_sc)
    _trace_proto(run, vc, tables, 1500 if tier == "quick" else 12000)
    return run.finish(rule="vectors = every ShareVerify (i, j, same/other ciphertext) and DecryptShares (every sequence without repetition over 1..n plus duplicate / zero-id / corrupt insertions, both routes) transition for all (t,n) <= MaxN, all schemes, length classes and keys; non-trivial = mismatched share/key/ciphertext or not exactly t untouched shares",
                      assumptions=["symbolic model with degree-2 coefficients f(i)*r", "reference interpolation + open on bls12_381_plus"])


# ------------------------------------------------------------------------------------ C13
def c13(run, vc):
    tier = run.tier
    tables = _prep(run, vc)
    cfg = "MC_TimeLock_%s.cfg" % tier
    r, bad = _tlc_stage(run, vc, "MC_TimeLock", cfg, [("TLSeal", "Ok"), ("TLSeal", "Err"), "TLDecrypt"], timeout=7200)
    if bad:
        return run.finish()
    if _deep(run, vc, "MC_TimeLock", "MC_TimeLock_deep.cfg"):
        return run.finish()
    vecs = r["vectors"]
    outs = {}
    for v in vecs:
        if v["act"] == "TLDecrypt":
            key = (v["expect"]["out"], v["sig"]["route"], v["ct"]["scheme0"])
            outs[key] = outs.get(key, 0) + 1
    for need in [("Some", "whole", "Basic"), ("Some", "whole", "Aug"), ("Some", "whole", "Pop"), ("Some", "shares", "Basic"), ("Some", "shares", "Pop"), ("None", "shares", "Basic")]:
        if need not in outs:
            raise vc.ToolError("vacuity: no TLDecrypt vector %s" % (need,))
    _sample(run, [v for v in vecs if v["act"] == "TLDecrypt"])
    s = vc.replay(vecs, "c13", tables, profiles="5")
    run.add_replay(s, "time-lock seal / decrypt for every identifier, scheme, key, length class, adversary move and offered signature (whole-key, recombined, wrong id/key/scheme/label, identity, negated)", vecs,
                   lambda v: v["act"] == "TLDecrypt" and (v.get("touched") or not v.get("rightsig")))
    _trace_proto(run, vc, tables, 1500 if tier == "quick" else 12000)
    return run.finish(rule="vectors = every TLSeal and TLDecrypt transition of the TimeLock model: keys x schemes x identifiers x length classes x <=Depth adversary moves on (U, V, W regions, scheme label) x offered signatures; derived executions = every bit of V / of the touched W region, every truncation length, and the independent implementation's exact result; non-trivial = touched ciphertext or not the right signature",
                      assumptions=["symbolic model; r = Hr(alpha, SHA256(M)) is an atom determined by (alpha, M)", "independent open on bls12_381_plus + SHA-256 + SHAKE128 + hand-written HKDF"])


# ------------------------------------------------------------------------------------ C14
def c14(run, vc):
    tier = run.tier
    tables = _prep(run, vc)
    cfg = "MC_ElGamal_%s.cfg" % tier
    r, bad = _tlc_stage(run, vc, "MC_ElGamal", cfg, [("EGEncrypt", "Ok"), ("EGEncrypt", "Err"), "EGDecrypt", ("EGVerify", "Ok"), ("EGVerify", "Err"),
                                                       ("EGVerifyDecrypt", "Ok"), ("EGVerifyDecrypt", "Err"), ("EGShares", "Ok"), ("EGShares", "Err")], timeout=7200)
    if bad:
        return run.finish()
    vecs = r["vectors"]
    _sample(run, [v for v in vecs if v["act"] in ("EGVerify", "EGDecrypt")])
    s = vc.replay(vecs, "c14", tables, profiles="5")
    run.add_replay(s, "ElGamal encrypt / homomorphic sums / decrypt / proofs under every single-component perturbation / verify-and-decrypt / t-of-n decryption", vecs,
                   lambda v: bool(v.get("touched")) or v.get("rightkey") is False or v.get("rightpk") is False or (v["act"] == "EGShares" and not v.get("ideal")))
    _trace_proto(run, vc, tables, 1500 if tier == "quick" else 12000)
    return run.finish(rule="vectors = every transition of the ElGamal model: recipient keys x plaintexts {1, r-1, ..} x sums of <=MaxSum ciphertexts x decrypting key; proofs x every perturbation {add, negate, swap with another proof's, zero/identity} of each of (c1, c2, message_proof, blinder_proof, challenge) x verifier key recipes; threshold decryption for all (t,n) and share sequences; derived = all six addition forms, reference verdict, reference-made proofs accepted by the library",
                      assumptions=["symbolic model; Fiat-Shamir challenge is a random oracle", "independent transcript on merlin with labels/order from spec/Tags.tla"])


# ------------------------------------------------------------------------------------ C10
def c10(run, vc):
    tier = run.tier
    tables = _prep(run, vc)
    cfg = "MC_Pok_%s.cfg" % tier
    r, bad = _tlc_stage(run, vc, "MC_Pok", cfg, [("Pok", "Ok"), ("Pok", "Err"), ("PokTs", "Ok"), ("PokTs", "Err")], timeout=7200)
    if bad:
        return run.finish()
    vecs = r["vectors"]
    if not any(v["act"] == "PokTs" and v["tau"] >= 0 and v["delay"] == v["tau"] + 1 for v in vecs):
        raise vc.ToolError("vacuity: no verification exactly one millisecond after the timeout")
    _sample(run, [v for v in vecs if v["act"] == "PokTs"])
    _sample(run, [v for v in vecs if v["act"] == "Pok"], 2)
    s = vc.replay(vecs, "c10", tables, profiles="5")
    run.add_replay(s, "commit-challenge-response and timestamp proofs: every scheme, challenge kind, single-component perturbation, delay class vs timeout (virtual clock hook), every timestamp class", vecs,
                   lambda v: v["pert"] != "none" or v.get("y") == "zero" or (v["act"] == "PokTs" and v["tau"] >= 0))
    _trace_proto(run, vc, tables, 1500 if tier == "quick" else 12000)
    return run.finish(rule="vectors = every Pok and PokTs transition: keys x messages x 3 schemes x challenge kinds {from bytes, from hash, random, zero} x perturbations of (u, v, y, msg, pk, label) ; timestamp proofs x perturbations incl. timestamp {past, future, 0, u64::MAX} x delay classes {0, tau-1, tau, tau+1, >>tau} x timeouts incl. none; non-trivial = any perturbation, zero challenge, or a timeout in force",
                      assumptions=["symbolic model; Hy is a random oracle", "virtual clock hook (--cfg blsful_verif) replaces SystemTime::now in the two timestamp functions"])


# ------------------------------------------------------------------------------------ C15 / C16 / C17 (Codec)
def _codec(run, vc, keep, label, build="release", tables=None, tag=""):
    tier = run.tier
    if tables is None:
        tables = _prep(run, vc, build=build)
    cfg = "MC_Codec_%s.cfg" % tier
    r, bad = _tlc_stage(run, vc, "MC_Codec", cfg, [("Codec", "Ok"), ("Codec", "Err"), "IsZero"], timeout=7200)
    if bad:
        return None, tables
    vecs = [v for v in r["vectors"] if keep(v)]
    types = {v["type"] for v in vecs if v["act"] == "Codec"}
    if len(types) < 28:
        raise vc.ToolError("vacuity: only %d of the 28 types produced vectors" % len(types))
    _sample(run, vecs)
    s = vc.replay(vecs, run.prop.lower() + tag, tables, profiles="5", build=build)
    run.add_replay(s, label, vecs, lambda v: v["act"] in ("IsZero", "Default", "Select") or v["mut"]["kind"] != "none")
    return vecs, tables


def _fuzz_trace(run, vc, tables, iters, build="release"):
    tp, n, dt = vc.record("fuzz", run.prop.lower() + "_fuzz_" + build, iters, build=build, extra=["--tables", tables])
    ok, at, ev, dt2, states = vc.validate_trace("Trace_Codec", tp, run.prop.lower() + "_fuzz")
    execs = 0
    with open(tp) as f:
        for line in f:
            e = json.loads(line)
            execs += e.get("count", 0)
    run.stages.append({"stage": "trace", "driver": "fuzz", "spec": "Trace_Codec", "build": build, "class_events": n, "executions_behind_them": execs,
                       "accepted": ok, "record_wall_s": round(dt, 1), "tlc_wall_s": round(dt2, 1)})
    run.states += states
    run.transitions += states
    if ok:
        run.traces += 1
        run.trace_events += execs
    else:
        keep = os.path.join(vc.REPLAYS, run.prop)
        os.makedirs(keep, exist_ok=True)
        kp = os.path.join(keep, "trace_fuzz_%s_seed%d.ndjson" % (build, vc.SEED))
        import shutil
        shutil.copy(tp, kp)
        run.violations.append(("trace", {"why": "decoder trace rejected by Trace_Codec at event %d: %s" % (at, json.dumps(ev)[:300]), "event": ev, "at": at, "trace": kp, "driver": "fuzz", "build": build}))
    return ok


def c15(run, vc):
    vecs, tables = _codec(run, vc, lambda v: v["act"] in ("Default", "Select") or (v["act"] == "Codec" and v["mut"]["kind"] == "none"), "round trip of every type x codec x variant x value class, all container conversions and front ends, determinism, layout lengths; default values; constant-time selection laws")
    if vecs is not None:
        _fuzz_trace(run, vc, tables, 60 if run.tier == "quick" else 600)
    return run.finish(rule="vectors = every (type, codec, variant, value class) of the Codec model with no mutation: 28 types x {byte conversion, serde_bare, serde_json} x scheme / curve variants x value classes {generic, identity point, scalar 1 / r-1, empty / large payload, share ids}; derived = the four container conversions, owned/borrowed encoders, determinism, encoded length vs layout; trace = random values of every type through every codec, validated by TLC (Trace_Codec.TRoundTrip)",
                      assumptions=["field layout in spec/Layout.tla"])


def c16(run, vc):
    vecs, tables = _codec(run, vc, lambda v: v["act"] == "Codec" and v["mut"]["kind"] != "none", "structure-aware mutations of every field of every type in all three decoders; share containers judged at use")
    if vecs is not None:
        _fuzz_trace(run, vc, tables, 300 if run.tier == "quick" else 3000)
        # the lazily validated share containers inside share *lists*: an undecodable payload at any position of a
        # recombination (also next to a valid share with the same identifier) is an error, never skipped
        bad = lambda v: any(not e.get("ok", True) for e in v.get("entries", []))
        _multi_stage(run, vc, tables, [
            ("MC_Threshold", "MC_Threshold_%s.cfg" % run.tier, lambda v: v["act"] == "Combine" and bad(v), "share lists with one undecodable payload at every position (public-key and signature shares)"),
            ("MC_SignCrypt", "MC_SignCrypt_%s.cfg" % run.tier, lambda v: v["act"] == "DecryptShares" and bad(v) and v["ct"]["n"] > 1, "decryption-share lists with one undecodable payload (messages longer than one byte: the chance opening of shorter ones is finding D11 under C11 / C12)"),
            ("MC_ElGamal", "MC_ElGamal_%s.cfg" % run.tier, lambda v: v["act"] == "EGShares" and bad(v), "ElGamal decryption-share lists with one undecodable payload"),
        ])
    return run.finish(rule="vectors = every (type, codec, mutation) of the Codec model: truncation at every field boundary (+-1) and at every length, extension, every point field replaced by {off-subgroup, valid+torsion, x without point, x >= p, cleared compression flag, infinity flag, identity}, every scalar field by {0, 1, r-1, r, r+5, 2^256-1, 0x80}, every tag byte, share ids {0, 255}, length prefixes {+1, huge, overlong}, JSON hex leaves {non-hex, odd, short, long, empty, upper}; decoded values are fed to every consumer; trace = random / bit-flipped / byte-replaced / truncated / extended / spliced inputs to every decoder, judged by an independent point classifier and validated by TLC per (type, codec, class, outcome)",
                      assumptions=["invalid point encodings constructed with bls12_381_plus unchecked decompression", "field layout in spec/Layout.tla"])


def c17(run, vc):
    tier = run.tier
    tables = _prep(run, vc)
    vc.log("[C17] building the checked harness (overflow checks + debug assertions)")
    vc.build_harness("checked")
    for build in ("release", "checked"):
        vecs, _ = _codec(run, vc, lambda v: True, "every decoder outcome and every consumer, build=%s: no abort" % build, build=build, tables=tables, tag="_" + build)
        if vecs is None:
            return run.finish()
        _fuzz_trace(run, vc, tables, 300 if tier == "quick" else 3000, build=build)
    # abort sites of the protocol modules, on the checked build: crafted length prefixes inside valid
    # ciphertexts, empty payloads, every timestamp / timeout class
    r, bad = _tlc_stage(run, vc, "MC_SignCrypt", "MC_SignCrypt_%s.cfg" % tier, ["Decrypt"], timeout=7200)
    if bad:
        return run.finish()
    sc = [v for v in r["vectors"] if v["act"] in ("Decrypt", "IsValid") and any(o["op"] in ("CraftFrame", "VTrunc", "VExtend", "UWId") for o in v["ct"]["ops"])]
    if not any(o["op"] == "CraftFrame" for v in sc for o in v["ct"]["ops"]):
        raise vc.ToolError("vacuity: no crafted-frame vector")
    def only_aborts(s):
        s["failures"] = [f for f in s["failures"] if "abort" in json.dumps(f.get("observed", {})) or "abort" in f.get("why", "")]
        return s
    s = only_aborts(vc.replay(sc, "c17_sc", tables, profiles="5", build="checked"))
    run.add_replay(s, "signcryption: crafted length prefixes in valid ciphertexts, truncated / empty / extended payloads (checked build)", sc, lambda v: True)
    r, bad = _tlc_stage(run, vc, "MC_TimeLock", "MC_TimeLock_%s.cfg" % tier, ["TLDecrypt"], timeout=7200)
    if bad:
        return run.finish()
    tl = [v for v in r["vectors"] if v["act"] == "TLDecrypt" and v["rightsig"] and (any(o["op"] == "W" for o in v["ct"]["ops"]) or v.get("crafts"))]
    s = only_aborts(vc.replay(tl, "c17_tl", tables, profiles="5", build="checked"))
    run.add_replay(s, "time-lock: every W region flipped / truncated to every length / emptied / extended; sender-crafted length prefixes and alpha (checked build)", tl, lambda v: True)
    r, bad = _tlc_stage(run, vc, "MC_Pok", "MC_Pok_%s.cfg" % tier, ["PokTs"], timeout=7200)
    if bad:
        return run.finish()
    pk = [v for v in r["vectors"] if v["act"] == "PokTs"]
    s = only_aborts(vc.replay(pk, "c17_pok", tables, profiles="5", build="checked"))
    run.add_replay(s, "timestamp proofs: every timestamp class x delay x timeout (checked build)", pk, lambda v: True)
    # every verify function and every share combiner on the checked build (debug assertions and overflow checks on
    # the paths the other properties only exercise in release): quick = an evenly spaced sample, thorough = all
    cap = 1200 if tier == "quick" else 30000
    for module, cfg, keep, label in (
        ("MC_SigNet", "MC_SigNet_single_%s.cfg" % tier, lambda v: v["act"] in ("Verify", "Sign"), "single verification and signing, honest and tampered"),
        ("MC_SigNet", "MC_SigNet_pop_%s.cfg" % tier, lambda v: v["act"] in ("PopVerify", "PopProve"), "proofs of possession"),
        ("MC_SigNet", "MC_SigNet_agg_%s.cfg" % tier, lambda v: v["act"] in ("AggVerify", "Aggregate"), "aggregate verification incl. empty / mixed lists"),
        ("MC_SigNet", "MC_SigNet_multi_%s.cfg" % tier, lambda v: v["act"] in ("MultiVerify", "Accumulate"), "multi-signature verification"),
        ("MC_Threshold", "MC_Threshold_%s.cfg" % tier, lambda v: True, "split parameters, partial signing / verification, every combiner on every share list"),
        ("MC_ElGamal", "MC_ElGamal_%s.cfg" % tier, lambda v: True, "ElGamal sums, proofs, share recombination"),
        ("MC_SignCrypt", "MC_SignCrypt_%s.cfg" % tier, lambda v: v["act"] in ("ShareVerify", "DecryptShares"), "decryption-share verification and threshold opening"),
        ("MC_Pok", "MC_Pok_%s.cfg" % tier, lambda v: v["act"] in ("Pok", "PokReuse"), "interactive proofs of knowledge"),
    ):
        r, bad = _tlc_stage(run, vc, module, cfg, [], timeout=7200)
        if bad:
            return run.finish()
        vs = [v for v in r["vectors"] if keep(v)]
        step = max(1, len(vs) // cap)
        vs = vs[::step]
        s = only_aborts(vc.replay(vs, "c17_" + cfg.replace(".cfg", ""), tables, profiles="5", build="checked"))
        run.add_replay(s, label + " (checked build, aborts only)", vs, lambda v: True)
    return run.finish(rule="vectors = every transition of the Codec model (all mutations incl. every truncation length, every consumer of every decoded value, all 256 byte-OR values of the zero test at 6 import sites) on the plain release build and on a build with overflow checks and debug assertions; plus, on the checked build, the abort sites of the protocol modules: crafted LEB128 prefixes inside valid signcryption ciphertexts, truncated / empty / extended payloads, every W region of time-lock ciphertexts, every (timestamp, delay, timeout) class, and (an evenly spaced sample: 1 200 vectors per stage in the quick tier, 30 000 in the thorough tier) the transitions of SigNet, Threshold, ElGamal, SignCrypt share handling and Pok; trace = random and mutated inputs to every decoder on both builds, validated by TLC (no Abort outcome exists in the specification)",
                      assumptions=["panics are observed under catch_unwind; non-termination would show as a timeout (exit 2)", "dependency calls are total per their contract"])


# ------------------------------------------------------------------------------------ C20
def c20(run, vc):
    import subprocess, shutil
    tier = run.tier
    tables = _prep(run, vc)
    # the design: fresh generator per call, all interleavings of 2 processes x 2 threads
    r = vc.tlc("MC_Rng", "MC_Rng_%s.cfg" % tier, "c20_rng", timeout=7200)
    run.add_tlc(r, "MC_Rng_%s.cfg (Mode = entropy)" % tier)
    if r["violated"]:
        vc.spec_violation(run, r, "MC_Rng", "MC_Rng_%s.cfg" % tier)
        return run.finish()
    # negative controls: each faulty seeding discipline must violate NoReuse / FreshGenerators
    killed = []
    for m in ("clock", "static", "threadlocal", "fork", "cloned", "hedged"):
        rn = vc.tlc("MC_Rng", "MC_Rng_neg_%s.cfg" % m, "c20_neg_" + m, timeout=600)
        if not rn["violated"]:
            raise vc.ToolError("vacuity: faulty variant %s does not violate the invariants" % m)
        killed.append(m)
    run.extra_cov["faulty_variants_refuted_by_tlc"] = killed
    # unbounded number of calls / draws / steps: the inductive form of NoReuse, discharged by Apalache
    # (Init => IndInv, IndInv /\ Next => IndInv', IndInv => NoReuse), and its negative control (a constant seed)
    wd = os.path.join(vc.WORK, "apalache_%d" % os.getpid())
    shutil.rmtree(wd, ignore_errors=True)
    os.makedirs(wd)
    try:
        src = open(os.path.join(vc.SPEC, "RngInd.tla")).read()
        open(os.path.join(wd, "RngInd.tla"), "w").write(src)
        bad = src.replace("seed' = [seed EXCEPT ![t] = pool]", "seed' = [seed EXCEPT ![t] = 1]").replace("MODULE RngInd ", "MODULE RngIndBad ")
        if bad.count("= 1]") != 1:
            raise vc.ToolError("cannot derive the negative control of RngInd")
        open(os.path.join(wd, "RngIndBad.tla"), "w").write(bad)
        def apalache(mod, init, inv, length):
            try:
                rc, out, dt = vc.sh(["apalache-mc", "check", "--cinit=ConstInit", "--init=" + init, "--inv=" + inv, "--length=%d" % length, mod + ".tla"], cwd=wd, timeout=1500, check=False)
            except subprocess.TimeoutExpired:
                raise vc.ToolError("apalache timed out on %s %s" % (mod, inv))
            if "EXITCODE: OK" in out:
                return True, dt
            if "EXITCODE: ERROR (12)" in out:
                return False, dt
            raise vc.ToolError("apalache failed on %s: %s" % (mod, out[-1500:]))
        obligations = [("Init", "IndInv", 0), ("IndInit", "IndInv", 1), ("IndInit", "NoReuse", 0)]
        for init, inv, length in obligations:
            ok, dt = apalache("RngInd", init, inv, length)
            run.stages.append({"stage": "apalache", "module": "RngInd", "obligation": "%s, %d step(s) => %s" % (init, length, inv), "holds": ok, "wall_s": round(dt, 1)})
            if not ok:
                run.violations.append(("spec", {"why": "Apalache: obligation %s / %s of RngInd fails: the seeding discipline of the specification admits reuse" % (init, inv)}))
                return run.finish()
        ok, dt = apalache("RngIndBad", "IndInit", "IndInv", 1)
        if ok:
            raise vc.ToolError("vacuity: the constant-seed variant of RngInd passes the inductive step")
        run.extra_cov["inductive_invariant"] = "RngInd: Init => IndInv; IndInv /\\ Next => IndInv'; IndInv => NoReuse (Apalache, unbounded integers, 3 threads); constant-seed variant refuted"
    finally:
        shutil.rmtree(wd, ignore_errors=True)
    # the implementation: P processes started together, T threads each, N rounds of every entry point
    n, t, p = (48, 4, 2) if tier == "quick" else (512, 16, 4)
    bulk = 65536                                        # per thread: 2^19 generators in the quick tier (2 x 4 threads), 2^22 in the thorough tier (4 x 16)
    outs = []
    procs = []
    for i in range(p):
        op = os.path.join(vc.WORK, "c20_proc%d.ndjson" % i)
        outs.append(op)
        procs.append(subprocess.Popen([vc.bin_path(), "record", "--driver", "rng", "--events", str(n), "--threads", str(t), "--proc", str(i + 1), "--out", op, "--bulk", str(bulk)],
                                      stdout=subprocess.PIPE, stderr=subprocess.STDOUT))
    for pr in procs:
        pr.wait(timeout=3000)
        if pr.returncode == 101:
            run.violations.append(("trace", {"why": "a randomized entry point failed or panicked on an honest call (rng driver aborted): " + pr.stdout.read().decode()[-800:]}))
            return run.finish()
        if pr.returncode != 0:
            raise vc.ToolError("rng driver failed: " + pr.stdout.read().decode()[-2000:])
    merged = os.path.join(vc.WORK, "c20_rng.trace.ndjson")
    calls = 0
    with open(merged, "w") as f:
        for op in outs:
            for line in open(op):
                f.write(line)
                calls += line.startswith('{"entry"') or '"ev":"Call"' in line
    # the volume run: raw fingerprints of all processes merged, one GenBulk event for TLC
    fps = set()
    nfp = 0
    for op in outs:
        raw = open(op + ".fps", "rb").read()
        nfp += len(raw) // 16
        fps.update(raw[i:i + 16] for i in range(0, len(raw), 16))
        os.remove(op + ".fps")
    bulk_ev = {"ev": "GenBulk", "count": nfp, "distinct": len(fps)}
    run.extra_cov["bulk_generators"] = bulk_ev
    if nfp < p * t * bulk:
        raise vc.ToolError("vacuity: the hook reported %d generators for %d bulk calls" % (nfp, p * t * bulk))
    del fps
    with open(merged, "a") as f:
        f.write(json.dumps(bulk_ev) + "\n")
    nev = sum(1 for _ in open(merged))
    if tier == "quick":
        ok, at, ev, dt, states = vc.validate_trace("Trace_Rng", merged, "c20")
        spec_used = "Trace_Rng"
    else:
        # sorted variant: 96-bit keys as three integers, strictly increasing
        keys = []
        for line in open(merged):
            e = json.loads(line)
            if e["ev"] == "Call":
                for x in e["eph"]:
                    keys.append(("e" + x, e))
            elif e["ev"] == "Gen":
                keys.append(("g" + e["fp"][:24], e))
        import hashlib
        ks = []
        for k, e in keys:
            hx = hashlib.sha256(k.encode()).hexdigest()
            ks.append(((int(hx[0:7], 16), int(hx[7:14], 16), int(hx[14:21], 16)), k))
        ks.sort()
        sp = os.path.join(vc.WORK, "c20_sorted.ndjson")
        with open(sp, "w") as f:
            for (a, b, c), k in ks:
                f.write(json.dumps({"ev": "Draw", "k": [a, b, c]}) + "\n")
        ok, at, ev, dt, states = vc.validate_trace("Trace_RngSorted", sp, "c20s", timeout=7000)
        spec_used = "Trace_RngSorted"
        nev = len(ks)
        if ok:
            bp = os.path.join(vc.WORK, "c20_bulk.ndjson")
            with open(bp, "w") as f:
                f.write(json.dumps(bulk_ev) + "\n")
            ok, at, ev, dt2, st2 = vc.validate_trace("Trace_Rng", bp, "c20b")
            spec_used = "Trace_RngSorted + Trace_Rng(GenBulk)"
    run.stages.append({"stage": "trace", "driver": "rng", "spec": spec_used, "processes": p, "threads": t, "rounds": n, "events": nev, "accepted": ok, "tlc_wall_s": round(dt, 1)})
    run.states += states
    run.transitions += states
    if ok:
        run.traces += 1
        run.trace_events += nev
        with open(merged) as f:
            run.samples.append({"trace_excerpt": [json.loads(f.readline()) for _ in range(3)]})
    else:
        keep = os.path.join(vc.REPLAYS, run.prop)
        os.makedirs(keep, exist_ok=True)
        kp = os.path.join(keep, "trace_rng_seed%d.ndjson" % vc.SEED)
        shutil.copy(merged, kp)
        run.violations.append(("trace", {"why": "an ephemeral value or generator repeats: trace rejected by %s at event %d: %s" % (spec_used, at, json.dumps(ev)[:300]), "event": ev, "at": at, "trace": kp}))
    run.nontrivial.update({"entropy", "clock", "static", "threadlocal", "fork"})
    return run.finish(rule="TLC: all interleavings of 2 processes x 2 threads x Calls x Draws of the Rng model with fresh-entropy seeding (NoReuse, FreshGenerators hold) and four faulty seeding disciplines (each refuted); trace: every randomized entry point (11) called with identical arguments (message lengths 0, 1, 2, 15) N times on T threads in P processes started together, observables injective in the ephemeral values plus the fingerprint of every generator (hook), validated by TLC as Draw actions that are enabled only for never-seen values",
                      assumptions=["get_crypto_rng hook (--cfg blsful_verif) reports a fingerprint of a clone of each generator", "OS entropy is modelled as an unbounded pool of distinct seeds", "hash prefixes (96 bits) stand for the observables"])


# ------------------------------------------------------------------------------------ C18 / C19 (Interop)
def _interop_trace(run, vc, events, name, label):
    tp = os.path.join(vc.WORK, name + ".trace.ndjson")
    with open(tp, "w") as f:
        for e in events:
            f.write(json.dumps(e) + "\n")
    ok, at, ev, dt, states = vc.validate_trace("Trace_Interop", tp, name)
    execs = sum(e.get("count", 1) for e in events if e["ev"] != "Reset")
    run.stages.append({"stage": "trace", "spec": "Trace_Interop", "what": label, "events": len(events), "executions_behind_them": execs, "accepted": ok, "tlc_wall_s": round(dt, 1)})
    run.states += states
    run.transitions += states
    if ok:
        run.traces += 1
        run.trace_events += execs
        run.samples.append({"trace_excerpt": events[1:4]})
    else:
        keep = os.path.join(vc.REPLAYS, run.prop)
        os.makedirs(keep, exist_ok=True)
        import shutil
        kp = os.path.join(keep, name + "_seed%d.ndjson" % vc.SEED)
        shutil.copy(tp, kp)
        run.violations.append(("trace", {"why": "%s: rejected by Trace_Interop at event %d: %s" % (label, at, json.dumps(ev)[:400]), "event": ev, "at": at, "trace": kp}))
    return ok


def _corpus_check(vc, corpus, tables, name, build="release", feature="blst"):
    op = os.path.join(vc.WORK, name + ".ndjson")
    rc, out, dt = vc.sh([vc.bin_path(build, feature), "corpus-check", "--in", corpus, "--tables", tables, "--out", op], cwd=vc.WORK, timeout=3000, check=False)
    if rc != 0:
        raise vc.ToolError("corpus-check failed: " + out[-2000:])
    return [json.loads(l) for l in open(op)]


def c18(run, vc):
    tier = run.tier
    tables = _prep(run, vc)
    # (a) the golden corpus of the pinned release replayed into the current tree
    evs = _corpus_check(vc, os.path.join(vc.ROOT, "golden", "corpus.ndjson"), tables, "c18_golden")
    kinds = {e["what"].split("/")[0] for e in evs if e["ev"] == "Golden"}
    for need in ("type", "sig", "signcrypt", "timelock", "pok", "pokts", "elgamal", "shares", "aggregate", "det"):
        if need not in kinds:
            raise vc.ToolError("vacuity: golden corpus has no %s entries" % need)
    run.extra_cov["golden_entry_classes"] = len(evs) - 1
    _interop_trace(run, vc, evs, "c18_golden", "golden corpus of the pinned release consumed by the current tree")
    # (b) library <-> independent implementation, both directions, for the library's own constructions
    for module, cfg, keep, label in (
        ("MC_SignCrypt", "MC_SignCrypt_%s.cfg" % tier, lambda v: v["act"] == "Seal" or (v["act"] == "IsValid" and not v["touched"]) or (v["act"] == "Decrypt" and not v["touched"] and v["rightkey"]), "signcryption seal/open in both directions (openings with the matching key; wrong-key openings belong to C11 / C12, where finding D11 is tracked)"),
        ("MC_TimeLock", "MC_TimeLock_%s.cfg" % tier, lambda v: v["act"] == "TLSeal" or (v["act"] == "TLDecrypt" and not v["touched"] and v["rightsig"]), "time-lock seal/open in both directions"),
        ("MC_ElGamal", "MC_ElGamal_%s.cfg" % tier, lambda v: v["act"] in ("EGEncrypt", "EGDecrypt") or (v["act"] == "EGVerify" and not v["touched"]), "ElGamal transcript: library-made proofs verified by the reference and reference-made proofs by the library"),
        ("MC_Pok", "MC_Pok_%s.cfg" % tier, lambda v: v["pert"] == "none" and v.get("y") != "zero" and v["scheme"] != "Aug", "proof-of-knowledge equation and timestamp challenge derivation (Basic / PoP; the MessageAugmentation incompleteness is C10's recorded finding D6)"),
    ):
        r, bad = _tlc_stage(run, vc, module, cfg, [], timeout=7200)
        if bad:
            return run.finish()
        vecs = [v for v in r["vectors"] if keep(v)]
        if not vecs:
            raise vc.ToolError("vacuity: no vectors for " + label)
        run.samples.append(vecs[0])
        s = vc.replay(vecs, "c18_" + module, tables, profiles="5")
        run.add_replay(s, label, vecs, lambda v: True)
    return run.finish(rule="(a) every entry of the golden corpus recorded from the pinned release (every type x group x variant x value class in three encodings; signatures, ciphertexts, proofs, share sets, aggregates with the results their consumers gave; deterministic operations) replayed into the current tree, class-deduplicated, validated by TLC as Consume_current(Produce_pinned(x)) = Consume_pinned(x); (b) every honest seal / prove transition of the SignCrypt, TimeLock, ElGamal and Pok models executed with the independent implementation opening what the library seals and the library opening what the independent implementation seals",
                      assumptions=["golden corpus generated once from 4bdca94 (golden/README.md)", "independent implementation = spec tables + bls12_381_plus + SHA-2/SHA-3/merlin primitives + hand-written HKDF and framing"])


def c19(run, vc):
    tier = run.tier
    tables = _prep(run, vc)
    vc.log("[C19] building the harness with the pure-Rust backend")
    vc.build_harness("release", "rust")
    corp = {}
    for node, feat in (("blst", "blst"), ("rust", "rust")):
        cp = os.path.join(vc.WORK, "c19_corpus_%s.ndjson" % node)
        rc, out, dt = vc.sh([vc.bin_path("release", feat), "corpus", "--tables", tables, "--out", cp], cwd=vc.WORK, timeout=3000, check=False)
        if rc != 0:
            raise vc.ToolError("corpus generation failed on %s: %s" % (node, out[-2000:]))
        corp[node] = cp
    import hashlib
    events = [{"ev": "Reset"}]
    ndet = 0
    for node in ("blst", "rust"):
        for line in open(corp[node]):
            e = json.loads(line)
            k = e["kind"]
            fields = {"type": ("bytes", "bare", "json"), "sig": ("pk", "sig", "verdict"), "pop": ("pk", "pop", "verdict"), "keygen": ("sk",), "det": ("out",),
                      "aggregate": ("agg", "multi", "agg_verdict", "multi_verdict"), "shares": ("combined_sig", "equals_whole")}.get(k)
            if not fields:
                continue
            ident = "/".join(str(e.get(x, "")) for x in ("kind", "type", "group", "variant", "vclass", "scheme", "name"))
            for fld in fields:
                if k == "shares" and fld == "combined_sig":
                    continue   # combined from this node's own random share set: equal to the whole-key signature, compared through 'sig'
                val = json.dumps(e.get(fld))
                events.append({"ev": "Det", "node": node, "call": ident + "#" + fld, "out": hashlib.sha256(val.encode()).hexdigest()[:24]})
                ndet += 1
    run.extra_cov["deterministic_outputs_compared"] = ndet // 2
    _interop_trace(run, vc, events, "c19_det", "deterministic outputs of the blst-backed and the pure-Rust build")
    # randomized artefacts of each build consumed by the other
    cross = [{"ev": "Reset"}]
    for prod, cons in (("blst", "rust"), ("rust", "blst")):
        for e in _corpus_check(vc, corp[prod], tables, "c19_cross_%s_%s" % (prod, cons), feature=cons):
            if e["ev"] == "Golden":
                cross.append({"ev": "Cross", "kind": e["what"], "group": e["group"], "producer": prod, "consumer": cons, "ok": e["same"], "count": e["count"], "detail": e.get("detail", "")})
    _interop_trace(run, vc, cross, "c19_cross", "artefacts of each backend consumed by the other")
    # the SigNet / ElGamal vectors replayed on the pure-Rust build too (verdicts and reference bytes)
    for module, cfg in (("MC_SigNet", "MC_SigNet_pop_%s.cfg" % tier), ("MC_ElGamal", "MC_ElGamal_%s.cfg" % tier), ("MC_SigNet", "MC_SigNet_multi_%s.cfg" % tier)):
        r, bad = _tlc_stage(run, vc, module, cfg, [], timeout=7200)
        if bad:
            return run.finish()
        s = vc.replay(r["vectors"], "c19_" + cfg.replace(".cfg", ""), tables, profiles="5", feature="rust")
        run.add_replay(s, cfg + " replayed on the pure-Rust backend", r["vectors"], lambda v: True)
    # honest time-lock openings incl. the ciphertexts a sender can craft from the public building blocks (a
    # non-canonical alpha, over-long length prefixes): same outcome on both builds
    r, bad = _tlc_stage(run, vc, "MC_TimeLock", "MC_TimeLock_%s.cfg" % tier, [], timeout=7200)
    if bad:
        return run.finish()
    tv = [v for v in r["vectors"] if v["act"] == "TLDecrypt" and v.get("crafts")]
    if not tv:
        raise vc.ToolError("vacuity: no honest time-lock opening with crafted variants")
    for feat in ("blst", "rust"):
        s = vc.replay(tv, "c19_tl_" + feat, tables, profiles="5", feature=feat)
        run.add_replay(s, "honest and sender-crafted time-lock ciphertexts opened on the %s build" % feat, tv, lambda v: True)
    # decoding is deterministic too: every decoder outcome of the Codec model (canonical and non-canonical inputs)
    # on both builds against the same prediction, so a backend-specific divergence shows on one of them
    r, bad = _tlc_stage(run, vc, "MC_Codec", "MC_Codec_%s.cfg" % tier, [("Codec", "Ok"), ("Codec", "Err")], timeout=7200)
    if bad:
        return run.finish()
    cv = [v for v in r["vectors"] if v["act"] == "Codec"]
    for feat in ("blst", "rust"):
        s = vc.replay(cv, "c19_codec_" + feat, tables, profiles="5", feature=feat)
        run.add_replay(s, "every decoder outcome of the Codec model on the %s build" % feat, cv, lambda v: v["mut"]["kind"] != "none")
    run.samples.append({"det_events": events[1:4]})
    return run.finish(rule="both feature configurations are built from the current tree; every deterministic output (all encodings of every type x variant x value class, keys from seeds of 6 lengths, seeded random keys / challenges incl. the facade, signatures, PoPs, aggregates of 2..17 signers with verdicts, recombination of a fixed share set, challenges, generators, hash-to-curve / hash-to-scalar outputs incl. a 70 KB message, pairing result bytes, wide scalar reduction) is logged with its hash on both nodes and TLC validates equal-call => equal-output; the randomized artefacts of each build (ciphertexts, proofs, share sets) are consumed by the other build with the recorded result; model vectors replayed on the pure-Rust build; every decoder outcome of the Codec model (canonical and non-canonical encodings) replayed on both builds against one prediction",
                      assumptions=["both builds run on this machine; the blst build uses the assembly backend available here"])


# ------------------------------------------------------------------------------------ C03 / C04 / C05 (assembled)
def _const_trace(run, vc):
    tp, n, dt = vc.record("constants", run.prop.lower() + "_constants", 0)
    ok, at, ev, dt2, states = vc.validate_trace("Trace_Tags", tp, run.prop.lower() + "_tags")
    run.stages.append({"stage": "trace", "driver": "constants", "spec": "Trace_Tags", "events": n, "accepted": ok})
    run.states += states
    run.transitions += states
    if ok:
        run.traces += 1
        run.trace_events += n
    else:
        run.violations.append(("trace", {"why": "a tag constant exposed by the library differs from spec/Tags.tla (IETF ciphersuite IDs) or is not distinct: event %d: %s" % (at, json.dumps(ev)[:300]), "event": ev, "at": at, "trace": tp}))


def _multi_stage(run, vc, tables, stages, profiles="5"):
    """stages: (module, cfg, keep, label); returns False if a spec invariant failed"""
    for module, cfg, keep, label in stages:
        r, bad = _tlc_stage(run, vc, module, cfg, [], timeout=7200)
        if bad:
            return False
        vecs = [v for v in r["vectors"] if keep(v)]
        if not vecs:
            raise vc.ToolError("vacuity: no vectors for %s" % label)
        run.samples.append(vecs[len(vecs) // 2])
        s = vc.replay(vecs, run.prop.lower() + "_" + cfg.replace(".cfg", ""), tables, profiles=profiles)
        run.add_replay(s, label, vecs, lambda v: v.get("expect", {}).get("res", v.get("expect", {}).get("out")) not in ("Ok", "Some"))
    return True


def c03(run, vc):
    tier = run.tier
    tables = _prep(run, vc)
    _const_trace(run, vc)
    prof = _profiles(tier, [5, 129], [1, 5, 32, 129, 4096])
    ok = _multi_stage(run, vc, tables, [
        ("MC_SigNet", "MC_SigNet_keygen_%s.cfg" % tier, lambda v: v["act"] in ("KeyGen", "PopProve") or (v["act"] == "PopVerify" and v.get("honest")), "KeyGen for seeds of 6 lengths through 5 entry points; proofs of possession byte for byte"),
        ("MC_SigNet", "MC_SigNet_single_%s.cfg" % tier, lambda v: v["act"] == "Sign" or (v["act"] == "Verify" and v.get("honest")), "signatures of all schemes byte for byte; reference-made signatures accepted by the library and vice versa"),
        ("MC_SigNet", "MC_SigNet_agg_%s.cfg" % tier, lambda v: v["act"] == "Aggregate" or (v["act"] == "AggVerify" and v["how"] == "none"), "aggregates equal the reference sum; reference AggregateVerify agrees"),
    ], profiles=prof)
    return run.finish(rule="vectors = every KeyGen (seed lengths 0, 1, 31, 32, 33, 1024 x from_hash / facade / curve-tagged wrapper / seeded random / facade seeded random), Sign, PopProve, Aggregate and honest Verify / PopVerify / AggVerify transition of the SigNet model; each executed on the real library and compared byte for byte with the independent evaluator (draft-irtf-cfrg-bls-signature: KeyGen from hand-written HKDF over HMAC-SHA-256, hash-to-curve and arithmetic from the pure-Rust backend, tags and framing from spec/Tags.tla); the tag constants the library exposes are validated by TLC against the IETF ciphersuite IDs",
                      assumptions=["no network: no external test-vector file; the primitives' own RFC 9380 vectors anchor the evaluator", "symbolic model for the verdicts"])


def c04(run, vc):
    tier = run.tier
    tables = _prep(run, vc)
    idops = ("UId", "WId", "UWId", "VOne")
    ok = _multi_stage(run, vc, tables, [
        ("MC_SigNet", "MC_SigNet_single_%s.cfg" % tier, lambda v: (v["act"] == "Verify" and (v["idpk"] or v["idsig"])) or (v["act"] == "Sign" and v["k"] == 0), "single verification with identity key / signature (alone and together); signing with the zero key"),
        ("MC_SigNet", "MC_SigNet_pop_%s.cfg" % tier, lambda v: (v["act"] in ("PopVerify", "Verify") and (v["idpk"] or v["idsig"])) or (v["act"] == "PopProve" and v["k"] == 0), "proof of possession with identity operands; zero key"),
        ("MC_SigNet", "MC_SigNet_agg_%s.cfg" % tier, lambda v: v["act"] == "AggVerify" and (v["how"] in ("idkey", "addid") or v["idsig"]), "identity key at every position of an aggregate list; identity aggregate"),
        ("MC_SigNet", "MC_SigNet_multi_%s.cfg" % tier, lambda v: v["act"] == "MultiVerify" and (v["idpk"] or v["idsig"]), "accumulated key / multi-signature equal to the identity"),
        ("MC_Pok", "MC_Pok_%s.cfg" % tier, lambda v: v["pert"] in ("u_id", "v_id", "uv_id", "y_zero", "pk_id", "forge_v_id") or v.get("y") == "zero", "identity commitment / response / key, zero challenge, forged identity response"),
        ("MC_SignCrypt", "MC_SignCrypt_%s.cfg" % tier, lambda v: (v["act"] in ("IsValid", "Decrypt") and v["idpt"]) or (v["act"] == "ShareVerify" and v["idsub"] != "none"), "signcryption header identities (alone and jointly); identity decryption share / key share / W"),
        ("MC_TimeLock", "MC_TimeLock_%s.cfg" % tier, lambda v: (v["act"] == "TLSeal" and v["k"] == 0) or (v["act"] == "TLDecrypt" and (v["idpt"] or any(o["op"] in idops for o in v["ct"]["ops"]))), "time-lock: sealing to the identity key refused; identity signature / U; ciphertext keyed to K = 1"),
        ("MC_ElGamal", "MC_ElGamal_%s.cfg" % tier, lambda v: (v["act"] == "EGEncrypt" and v["k"] == 0) or (v["act"] in ("EGVerify", "EGVerifyDecrypt") and (any(o["how"] == "zero" for o in v["ops"]) or (v["act"] == "EGVerify" and any(o["op"] == "Identity" for o in v["pk"]["ops"])) or v.get("k2") == 0)), "ElGamal: identity recipient key refused; identity ciphertext components / zero proof scalars / zero secret key"),
        ("MC_Threshold", "MC_Threshold_%s.cfg" % tier, lambda v: v["act"] == "PartialSign" and v["zero"], "a zero share never produces a signature share"),
        ("MC_Codec", "MC_Codec_%s.cfg" % tier, lambda v: (v["act"] == "IsZero" and v["orv"] == 0) or (v["act"] == "Codec" and v["mut"]["kind"] == "scalar" and v["mut"]["class"] in ("zero", "r") and v["codec"] == "bytes" and v["secret"]), "the zero scalar (and r, which reduces to it) cannot be imported as a secret key / commitment secret / challenge from bytes"),
    ])
    return run.finish(rule="vectors = every transition of the SigNet, Pok, SignCrypt, TimeLock, ElGamal, Threshold and Codec models in which a point-typed operand is the identity (each position in turn and jointly with the position that would make the pairing equation trivially true), a challenge or proof scalar is zero, the signing key / share is zero, or the recipient key of a Result-returning seal is the identity; invariants NoIdentityAccepted / NoIdentity / ShareNoIdentity / SealRefusesIdentityKey / NoZeroSecret checked by TLC on the whole models, each such transition replayed on the real library",
                      assumptions=["symbolic model: with the identity substituted the pairing product is trivially one, so only the guards can reject - the replay judges outcomes, not the presence of a particular guard", "sign_crypt returns no Result and is outside the statement's 'refused' clause"])


def c05(run, vc):
    tier = run.tier
    tables = _prep(run, vc)
    _const_trace(run, vc)
    def cross_sig(v):
        if v["act"] != "Verify":
            return False
        ops = v["sig"]["ops"]
        return v["label"] != v["sig"]["base"]["scheme"] or any(o["op"] in ("Relabel", "AsSig", "AsPop") for o in ops) or any(o["op"] == "AddSig" and o["s"] != v["label"] for o in ops)
    ok = _multi_stage(run, vc, tables, [
        ("MC_SigNet", "MC_SigNet_single_%s.cfg" % tier, cross_sig, "a signature made under one scheme presented under another (all ordered pairs), incl. sums with signatures of other schemes"),
        ("MC_SigNet", "MC_SigNet_pop_%s.cfg" % tier, lambda v: (v["act"] == "Verify") or (v["act"] == "PopVerify" and any(o["op"] == "AsPop" for o in v["proof"]["ops"])), "a signature over the public-key bytes presented as a proof of possession and a proof of possession presented as a signature, every scheme"),
        ("MC_SigNet", "MC_SigNet_agg_%s.cfg" % tier, lambda v: v["act"] == "Aggregate" and len({x["base"]["scheme"] for x in v["sigs"]}) > 1, "signatures of different schemes never aggregate (every scheme list up to the bound)"),
        ("MC_SigNet", "MC_SigNet_multi_%s.cfg" % tier, lambda v: v["act"] == "Accumulate" and len({x["base"]["scheme"] for x in v["sigs"]}) > 1, "signatures of different schemes never accumulate into a multi-signature"),
        ("MC_Pok", "MC_Pok_%s.cfg" % tier, lambda v: v["pert"] in ("label", "pop_as_sig", "cross_forge") or (v["pert"] == "none" and v["scheme"] != "Aug" and v["act"] in ("Pok", "PokTs")), "a proof of knowledge relabelled to another scheme; a timestamp proof for another scheme forged from a challenge obtained for another commitment; a proof of possession presented as a signature inside a proof of knowledge; honest proofs of the Basic and PoP schemes (the tag the prover and the verifier use is the scheme's; the MessageAugmentation proof is finding D6 under C10)"),
        ("MC_SignCrypt", "MC_SignCrypt_%s.cfg" % tier, lambda v: v["act"] in ("IsValid", "Decrypt") and any(o["op"] == "Relabel" for o in v["ct"]["ops"]), "a signcryption ciphertext relabelled to each other scheme"),
        ("MC_Codec", "MC_Codec_%s.cfg" % tier, lambda v: v["act"] == "Codec" and v["mut"]["kind"] == "tag" and v["mut"]["field"] in ("variant", "scheme"), "an encoding whose scheme tag is rewritten decodes (if at all) to a value that is not equal to the original: the label is part of the value"),
        ("MC_TimeLock", "MC_TimeLock_%s.cfg" % tier, lambda v: v["act"] == "TLDecrypt" and (v["relabelled"] or v["sig"]["scheme"] != v["ct"]["scheme0"] or v["sig"]["label"] != v["sig"]["scheme"]) and v["sig"]["label"] == v["sig"]["scheme"], "a time-lock ciphertext opened with a genuine signature of another scheme, and a relabelled ciphertext"),
    ])
    return run.finish(rule="vectors = every transition of the SigNet, Pok, SignCrypt and TimeLock models in which the artefact's scheme label or purpose differs from the one it was made under (all ordered scheme pairs x keys x messages incl. the public-key bytes); TLC checks Separated, Distinct and IetfConform; the tag constants the library exposes are validated by TLC against spec/Tags.tla and for pairwise distinctness; the equality-pattern (Bind) rule of the SigNet traces independently rejects collapsed tags",
                      assumptions=["symbolic model: distinct tags give independent hash symbols"])


# ------------------------------------------------------------------------------------ traces
def _trace_signet(run, vc, tables, name, events, mix="all"):
    """implementation -> spec: record a random walk of the real library, validate with TLC."""
    if not hasattr(vc, "record_and_validate"):
        return
    vc.record_and_validate(run, "signet", "Trace_SigNet", name, events, tables, mix=mix)


def _trace_proto(run, vc, tables, events):
    """random walks over threshold sharing, time-lock, signcryption (incl. threshold decryption) and ElGamal in one
    value space, validated by TLC against Trace_Proto (Bind rule)"""
    vc.record_and_validate(run, "proto", "Trace_Proto", run.prop.lower(), events, tables)


CHECKS = {"C01": c01, "C02": c02, "C03": c03, "C04": c04, "C05": c05, "C06": c06, "C07": c07, "C08": c08, "C09": c09, "C10": c10, "C11": c11, "C12": c12, "C13": c13, "C14": c14, "C15": c15, "C16": c16, "C17": c17, "C18": c18, "C19": c19, "C20": c20}
