#!/usr/bin/env python3
"""Orchestration of the blsful model-based checks (DESIGN.md section 3 / 6).

  vcheck.py --setup                      build harness, parse all specs, export tables, self-tests
  vcheck.py Cxx --tier quick|thorough    run the check of one property
  vcheck.py Cxx --replay <file>          re-execute one recorded failing vector / trace

Pipeline per property:  cargo build (from /repo's current working tree, --cfg blsful_verif)
  -> TLC model check of the spec (invariants = the property on the design; one JSON vector per
     library-calling transition) -> replay of the vectors on the real library + independent
     evaluator -> recorded traces of the real library validated by TLC against the Trace spec
  -> known-findings filter -> evidence/<id>.json -> exit code.
Exit codes: 0 held / 1 violation (VIOLATION line + replay file) / 2 tool error, timeout, vacuity.
"""
import hashlib
import json
import os
import re
import shutil
import subprocess
import sys
import time

ROOT = os.path.dirname(os.path.dirname(os.path.abspath(__file__)))
SPEC = os.environ.get("VERIF_SPEC", os.path.join(ROOT, "spec"))
# (the three overrides exist only for scripts/seedmatrix.py, which measures the checks against seeded
#  changes in a scratch copy while the registered commands keep using /verif and /repo)
WORK = os.environ.get("VERIF_WORK", os.path.join(ROOT, "work"))
HARNESS = os.environ.get("VERIF_HARNESS", os.path.join(ROOT, "harness"))
EVID = os.environ.get("VERIF_EVID", os.path.join(ROOT, "evidence"))
REPLAYS = os.environ.get("VERIF_REPLAYS", os.path.join(ROOT, "replays"))
KNOWN = os.path.join(ROOT, "known_findings.json")
SEED = int(os.environ.get("VERIF_SEED", "0") or 0)
TLC_WORKERS = os.environ.get("VERIF_TLC_WORKERS", "12")
THREADS = os.environ.get("VERIF_THREADS", "16")


class ToolError(Exception):
    pass


def log(*a):
    print(*a, flush=True)


def sh(cmd, cwd=None, timeout=None, env=None, check=True):
    e = dict(os.environ)
    e.setdefault("CARGO_NET_OFFLINE", "true")
    if env:
        e.update(env)
    t0 = time.time()
    p = subprocess.run(cmd, cwd=cwd, env=e, stdout=subprocess.PIPE, stderr=subprocess.STDOUT, timeout=timeout, text=True, errors="replace")
    if check and p.returncode != 0:
        raise ToolError("command failed (%d): %s\n%s" % (p.returncode, " ".join(cmd), p.stdout[-4000:]))
    return p.returncode, p.stdout, time.time() - t0


# --------------------------------------------------------------------------- harness build
def bin_path(build="release", feature="blst"):
    td = "target" if feature == "blst" else "target-rust"
    return os.path.join(HARNESS, td, build, "blsful-verif-harness")


def build_harness(build="release", feature="blst"):
    """cargo build of the harness; /repo is a path dependency, so the library is rebuilt from
    its current working tree with --cfg blsful_verif (harness/.cargo/config.toml)."""
    cmd = ["cargo", "build", "--offline", "--quiet"]
    if build == "release":
        cmd += ["--release"]
    else:
        cmd += ["--profile", build]
    env = {}
    if feature != "blst":
        cmd += ["--no-default-features", "--features", feature]
        env["CARGO_TARGET_DIR"] = os.path.join(HARNESS, "target-rust")
    try:
        rc, out, dt = sh(cmd, cwd=HARNESS, timeout=1500, env=env, check=False)
    except subprocess.TimeoutExpired:
        raise ToolError("cargo build timed out")
    if rc != 0:
        raise ToolError("harness build failed:\n" + out[-6000:])
    return dt


# --------------------------------------------------------------------------- TLC
def tlc(module, cfg, name, workers=None, timeout=1800, env=None, extra=None, java_opts=None):
    """run TLC; returns dict(out, vectors, states, distinct, rc, wall, violated)"""
    md = os.path.join(WORK, "md_%s_%d" % (name, os.getpid()))      # per process: concurrent checks share WORK
    shutil.rmtree(md, ignore_errors=True)
    os.makedirs(WORK, exist_ok=True)
    cmd = ["tlc", "-workers", str(workers or TLC_WORKERS), "-metadir", md, "-cleanup", "-noGenerateSpecTE",
           "-config", os.path.join(SPEC, cfg), os.path.join(SPEC, module + ".tla")]
    if extra:
        cmd[1:1] = extra
    e = {}
    if java_opts:
        e["JAVA_TOOL_OPTIONS"] = java_opts
    if env:
        e.update(env)
    try:
        rc, out, dt = sh(cmd, cwd=WORK, timeout=timeout, env=e, check=False)
    except subprocess.TimeoutExpired:
        raise ToolError("TLC timed out on %s/%s" % (module, cfg))
    finally:
        shutil.rmtree(md, ignore_errors=True)
    vectors = []
    rest = []
    for line in out.splitlines():
        if line.startswith('<<"VEC", '):
            s = line[len('<<"VEC", '):-2]
            vectors.append(json.loads(json.loads(s)))
        else:
            rest.append(line)
    text = "\n".join(rest)
    m = re.search(r"(\d+) states generated, (\d+) distinct states found", text)
    res = dict(out=text, vectors=vectors, rc=rc, wall=dt,
               generated=int(m.group(1)) if m else 0, distinct=int(m.group(2)) if m else 0,
               violated=None)
    mv = re.search(r"Invariant (\w+) is violated", text)
    if mv:
        res["violated"] = mv.group(1)
    elif rc != 0 or "Model checking completed. No error has been found." not in text:
        if "is violated" in text or "violated" in text:
            res["violated"] = "property"
        else:
            raise ToolError("TLC failed on %s/%s (rc=%d):\n%s" % (module, cfg, rc, text[-5000:]))
    return res


def export_tables():
    r = tlc("MC_Tags", "MC_Tags.cfg", "tags", workers=1, timeout=300)
    m = re.search(r'<<"TABLES", (".*")>>', r["out"])
    if not m:
        raise ToolError("MC_Tags did not export tables:\n" + r["out"][-3000:])
    tables = json.loads(json.loads(m.group(1)))
    os.makedirs(WORK, exist_ok=True)
    p = os.path.join(WORK, "tables.json")
    tmp = p + ".%d" % os.getpid()
    with open(tmp, "w") as f:
        json.dump(tables, f)
    os.replace(tmp, p)
    return p, r


# --------------------------------------------------------------------------- replay
def vec_key(v):
    return hashlib.sha256(json.dumps(v, sort_keys=True).encode()).hexdigest()[:16]


CHECKED_SAMPLE = {"quick": 1200, "thorough": 20000}
_checked_built = [False]


def replay(vectors, name, tables, groups="G1,G2", profiles="5", build="release", feature="blst", timeout=3000, also_checked=True, alphabet=None):
    """replay on the real library.  A release/blst replay is followed by a replay of an evenly spaced sample of the
    same vectors on the `checked` build (overflow checks + debug assertions): the properties quantify over inputs,
    not over build profiles, and `cargo test` itself runs a debug profile."""
    summ = _replay_one(vectors, name, tables, groups, profiles, build, feature, timeout, alphabet)
    if also_checked and build == "release" and feature == "blst" and not os.environ.get("VERIF_NO_CHECKED") and vectors:
        cap = CHECKED_SAMPLE.get(os.environ.get("VERIF_TIER_NOW", "quick"), 1200)
        step = max(1, len(vectors) // cap)
        sample = vectors[::step]
        if not _checked_built[0]:
            build_harness("checked")
            _checked_built[0] = True
        first_profile = profiles.split(",")[0]
        c = _replay_one(sample, name + "_checked", tables, groups, first_profile, "checked", feature, timeout)
        for f in c["failures"]:
            f["build"] = "checked"
            f["why"] = "[build with overflow checks and debug assertions] " + f.get("why", "")
        summ["failures"] = summ["failures"] + c["failures"]
        summ["failed"] += c["failed"]
        summ["checked"] = {"vectors": c["vectors"], "executions": c["executions"], "derived_executions": c["derived_executions"], "failed": c["failed"], "wall": c["wall"]}
        summ["wall"] += c["wall"]
    return summ


def _replay_one(vectors, name, tables, groups="G1,G2", profiles="5", build="release", feature="blst", timeout=3000, alphabet=None):
    if os.environ.get("VERIF_TIER_NOW") == "thorough":
        timeout = max(timeout, 14000)
    os.makedirs(WORK, exist_ok=True)
    vp = os.path.join(WORK, name + ".vectors.ndjson")
    op = os.path.join(WORK, name + ".replay.json")
    with open(vp, "w") as f:
        for v in vectors:
            f.write(json.dumps(v) + "\n")
    cmd = [bin_path(build, feature), "replay", "--vectors", vp, "--tables", tables, "--out", op,
           "--groups", groups, "--profiles", profiles, "--seed", str(SEED), "--threads", THREADS, "--max-fail", os.environ.get("VERIF_MAX_FAIL", "25")]
    if alphabet is not None:
        cmd += ["--alphabet", str(alphabet)]
    try:
        rc, out, dt = sh(cmd, cwd=WORK, timeout=timeout, check=False)
    except subprocess.TimeoutExpired:
        raise ToolError("replay timed out (%s)" % name)
    if rc not in (0, 1) or not os.path.exists(op):
        raise ToolError("replay harness failed (rc=%d): %s" % (rc, out[-3000:]))
    with open(op) as f:
        summ = json.load(f)
    summ["wall"] = dt
    return summ


# --------------------------------------------------------------------------- trace validation
TRACE_JAVA = "-Xss1g -Dtlc2.tool.queue.IStateQueue=StateDeque"


def validate_trace(trace_module, trace_path, name, timeout=3000):
    """TLC on the Trace spec; returns (accepted, rejected_at, event_json, wall, states)"""
    md = os.path.join(WORK, "md_tr_%s_%d" % (name, os.getpid()))
    shutil.rmtree(md, ignore_errors=True)
    cmd = ["tlc", "-workers", "1", "-metadir", md, "-cleanup", "-noGenerateSpecTE", "-config",
           os.path.join(SPEC, trace_module + ".cfg"), os.path.join(SPEC, trace_module + ".tla")]
    try:
        rc, out, dt = sh(cmd, cwd=WORK, timeout=timeout, env={"TRACE": trace_path, "JAVA_TOOL_OPTIONS": TRACE_JAVA}, check=False)
    except subprocess.TimeoutExpired:
        raise ToolError("trace validation timed out (%s)" % name)
    finally:
        shutil.rmtree(md, ignore_errors=True)
    m = re.search(r"(\d+) states generated, (\d+) distinct states found", out)
    states = int(m.group(2)) if m else 0
    if "Model checking completed. No error has been found." in out and "TRACE-REJECTED" not in out:
        return True, 0, None, dt, states
    mr = re.search(r'<<"TRACE-REJECTED at event", (\d+), (".*")>>', out)
    if mr:
        evs = json.loads(mr.group(2))
        try:
            evs = json.loads(evs)
        except Exception:
            pass
        return False, int(mr.group(1)), evs, dt, states
    raise ToolError("trace validation failed without a verdict (%s):\n%s" % (name, out[-4000:]))


def record(driver, name, events, mix="all", groups="G1,G2", build="release", feature="blst", extra=None, timeout=3000):
    tp = os.path.join(WORK, name + ".trace.ndjson")
    cmd = [bin_path(build, feature), "record", "--driver", driver, "--events", str(events), "--seed", str(SEED),
           "--mix", mix, "--groups", groups, "--out", tp] + (extra or [])
    try:
        rc, out, dt = sh(cmd, cwd=WORK, timeout=timeout, check=False)
    except subprocess.TimeoutExpired:
        raise ToolError("record timed out (%s)" % name)
    if rc == 101:
        # the recorder aborted: an honest call of the real library returned an error or panicked where the driver
        # (which runs clean on the unchanged tree) relies on it.  That is an observation, not a tool failure: the
        # trace becomes one `Abort` event, which no trace specification accepts.
        with open(tp, "w") as f:
            f.write(json.dumps({"ev": "Abort", "seq": 1, "driver": driver, "why": out[-1500:]}) + "\n")
        return tp, 1, dt
    if rc != 0:
        raise ToolError("record harness failed (rc=%d): %s" % (rc, out[-3000:]))
    n = sum(1 for _ in open(tp))
    return tp, n, dt


def record_and_validate(run, driver, trace_module, name, events, tables, mix="all", groups="G1,G2", extra=None):
    tp, n, dt = record(driver, name + "_" + driver, events, mix=mix, groups=groups, extra=extra)
    ok, at, ev, dt2, states = validate_trace(trace_module, tp, name + "_" + driver)
    run.stages.append({"stage": "trace", "driver": driver, "spec": trace_module, "events": n, "accepted": ok,
                       "record_wall_s": round(dt, 1), "tlc_wall_s": round(dt2, 1)})
    run.states += states
    run.transitions += states
    if ok:
        run.traces += 1
        run.trace_events += n
        with open(tp) as f:
            lines = f.readlines()
        run.samples.append({"trace_excerpt": [json.loads(x) for x in lines[1:5]]})
    else:
        keep = os.path.join(REPLAYS, run.prop)
        os.makedirs(keep, exist_ok=True)
        kp = os.path.join(keep, "trace_%s_seed%d.ndjson" % (driver, SEED))
        shutil.copy(tp, kp)
        run.violations.append(("trace", {"why": "recorded trace of the real library rejected by %s at event %d" % (trace_module, at),
                                         "event": ev, "at": at, "trace": kp, "driver": driver}))
    return ok


def selftest_trace(driver, trace_module, kind_of_event="Verify", flip=("Ok", "Err")):
    """negative controls (DESIGN.md 3.5): a corrupted log must be rejected at the corrupted line"""
    tp, n, _ = record(driver, "selftest_" + driver, 300)
    ok, at, ev, _, _ = validate_trace(trace_module, tp, "selftest")
    if not ok:
        raise ToolError("self-test: pristine trace rejected at %d: %s" % (at, ev))
    evs = [json.loads(x) for x in open(tp)]
    i = next(i for i, e in enumerate(evs) if e["ev"] == kind_of_event)
    a = [dict(e) for e in evs]
    a[i]["res"] = flip[0] if a[i]["res"] != flip[0] else flip[1]
    outs = [i for i, e in enumerate(evs) if e.get("out") and e["ev"] == "Sign"]
    j = next(j for j in outs if evs[j]["out"] != evs[outs[0]]["out"])
    b = [dict(e) for e in evs]
    b[j]["out"] = b[outs[0]]["out"]
    # drop an event whose output later events refer to: the first public-key derivation
    ipk = next(k for k, e in enumerate(evs) if e["ev"] == "Pk")
    c = [e for k, e in enumerate(evs) if k != ipk]
    for label, t, where in (("flipped verdict", a, i + 1), ("merged value-ids", b, j + 1), ("dropped event", c, None)):
        fp = os.path.join(WORK, "selftest_bad.ndjson")
        with open(fp, "w") as f:
            for e in t:
                f.write(json.dumps(e) + "\n")
        ok, at, ev, _, _ = validate_trace(trace_module, fp, "selftest")
        if ok:
            raise ToolError("self-test: trace with %s was accepted" % label)
        if where is not None and at != where:
            raise ToolError("self-test: trace with %s rejected at %d, expected %d" % (label, at, where))
    return True


# --------------------------------------------------------------------------- known findings
def load_known():
    if not os.path.exists(KNOWN):
        return {"findings": [], "fixed": []}
    with open(KNOWN) as f:
        return json.load(f)


def match_known(prop, failure, known):
    """a failure is a known finding iff every key/value of some listed finding's `match` equals
    the corresponding (dotted-path) field of the failing vector record."""
    for k in known.get("findings", []):
        if prop not in k.get("properties", [k.get("property")]):
            continue
        ok = True
        for path, want in k["match"].items():
            cur = failure
            for part in path.split("."):
                if isinstance(cur, dict) and part in cur:
                    cur = cur[part]
                else:
                    cur = None
                    break
            if isinstance(want, list):
                if cur not in want:
                    ok = False
            elif cur != want:
                ok = False
        if ok:
            return k
    return None


# --------------------------------------------------------------------------- evidence / result
class Run:
    def __init__(self, prop, tier):
        self.prop, self.tier = prop, tier
        self.t0 = time.time()
        self.states = 0
        self.transitions = 0
        self.vectors = 0
        self.executions = 0
        self.derived = 0
        self.traces = 0
        self.trace_events = 0
        self.samples = []
        self.nontrivial = set()
        self.per_act = {}
        self.notes = {}
        self.constants = {}
        self.violations = []   # (kind, record)
        self.known_hits = []
        self.stages = []
        self.assumptions = []
        self.extra_cov = {}

    def add_tlc(self, r, label):
        self.states += r["distinct"]
        self.transitions += r["generated"]
        self.stages.append({"stage": "tlc", "what": label, "distinct_states": r["distinct"], "states_generated": r["generated"],
                            "vectors_emitted": len(r["vectors"]), "wall_s": round(r["wall"], 1)})

    def add_replay(self, s, label, vectors, nontrivial_fn):
        self.vectors += s["vectors"]
        self.executions += s["executions"]
        self.derived += s["derived_executions"]
        for k, v in s["per_act"].items():
            e = self.per_act.setdefault(k, {"executed": 0, "failed": 0, "derived_executions": 0, "expect_accept": 0})
            for kk in e:
                e[kk] += v[kk]
        for k, v in s.get("notes", {}).items():
            self.notes[k] = self.notes.get(k, 0) + v
        for v in vectors:
            if nontrivial_fn(v):
                self.nontrivial.add(vec_key(v))
        self.stages.append({"stage": "replay", "what": label, "vectors": s["vectors"], "executions": s["executions"],
                            "derived_executions": s["derived_executions"], "failed": s["failed"], "groups": s["groups"],
                            "profiles": s["profiles"], "wall_s": round(s["wall"], 1)})
        if "checked" in s:
            c = s["checked"]
            self.executions += c["executions"]
            self.derived += c["derived_executions"]
            self.stages.append({"stage": "replay", "what": label + " - evenly spaced sample on the build with overflow checks and debug assertions",
                                "vectors": c["vectors"], "executions": c["executions"], "derived_executions": c["derived_executions"], "failed": c["failed"],
                                "wall_s": round(c["wall"], 1)})
        for f in s["failures"]:
            self.violations.append(("replay", f))

    def finish(self, level="model_checking", rule="", assumptions=None, exhaustive=True):
        known = load_known()
        real = []
        for kind, rec in self.violations:
            k = match_known(self.prop, rec, known) if kind in ("replay", "trace") else None
            if k:
                if k["id"] not in [x["id"] for x in self.known_hits]:
                    self.known_hits.append(k)
            else:
                real.append((kind, rec))
        # re-execute the concrete witnesses of every finding listed for this property
        for k in known.get("findings", []):
            if self.prop in k.get("properties", []) and k.get("witnesses") and k["id"] not in [x["id"] for x in self.known_hits]:
                try:
                    p = subprocess.run([bin_path(), "witness"], input="\n".join(json.dumps(w) for w in k["witnesses"]) + "\n",
                                       stdout=subprocess.PIPE, stderr=subprocess.DEVNULL, text=True, timeout=600)
                    if "reproduces" in p.stdout.split() or "abort" in p.stdout.split():
                        self.known_hits.append(k)
                except Exception as e:  # a witness that cannot run is not a finding
                    log("note: witness of %s could not be executed: %s" % (k["id"], e))
        for k in self.known_hits:
            log("KNOWN-FINDING: property=%s %s" % (self.prop, k["text"]))
        os.makedirs(EVID, exist_ok=True)
        cov = {
            "states": max(self.states, 0), "transitions": max(self.transitions, 0),
            "traces_validated_against_impl": self.executions + self.traces,
            "samples": self.samples[:6] if self.samples else [{"note": "no vector or trace was produced before the run ended", "stages": self.stages[:2]}],
            "evaluations": self.executions + self.derived + self.trace_events,
            "distinct_nontrivial": len(self.nontrivial),
            "rule": rule,
            "exhaustive": exhaustive,
            "vectors_from_tlc": self.vectors, "vector_executions_on_impl": self.executions,
            "derived_executions_on_impl": self.derived, "recorded_traces_accepted_by_tlc": self.traces,
            "recorded_trace_events": self.trace_events,
            "per_act": self.per_act, "informational_notes": self.notes, "stages": self.stages,
            "constants": self.constants, "known_findings_hit": [k["id"] for k in self.known_hits],
        }
        cov.update(self.extra_cov)
        ev = {"property_id": self.prop, "tier": self.tier, "seed": SEED, "level": level, "coverage": cov,
              "assumptions": (assumptions or []) + self.assumptions,
              "wall_s": round(time.time() - self.t0, 1), "violations": len(real)}
        with open(os.path.join(EVID, self.prop + ".json"), "w") as f:
            json.dump(ev, f, indent=1)
        if real:
            os.makedirs(os.path.join(REPLAYS, self.prop), exist_ok=True)
            seen = set()
            for kind, rec in real[:20]:
                h = hashlib.sha256(json.dumps(rec, sort_keys=True).encode()).hexdigest()[:12]
                if h in seen:
                    continue
                seen.add(h)
                p = os.path.join(REPLAYS, self.prop, h + ".json")
                with open(p, "w") as f:
                    json.dump({"property": self.prop, "kind": kind, "record": rec}, f, indent=1)
                why = rec.get("why", "") if isinstance(rec, dict) else ""
                log("VIOLATION property=%s replay=%s  # %s" % (self.prop, p, why[:160]))
            return 1
        log("OK property=%s tier=%s states=%d vectors=%d executions=%d(+%d) traces=%d wall=%.0fs" % (
            self.prop, self.tier, self.states, self.vectors, self.executions, self.derived, self.traces, time.time() - self.t0))
        return 0


def require_acts(vectors, needed, what):
    have = {}
    for v in vectors:
        key = (v["act"], v.get("expect", {}).get("res"))
        have[key] = have.get(key, 0) + 1
    for n in needed:
        if isinstance(n, tuple):
            if n not in have:
                raise ToolError("vacuity: %s never produced a %s vector with outcome %s" % (what, n[0], n[1]))
        elif not any(k[0] == n for k in have):
            raise ToolError("vacuity: %s never produced a %s vector" % (what, n))
    return have


def spec_violation(run, r, module, cfg):
    """an invariant of the specification itself failed: a defect of the design (or of the spec)."""
    run.violations.append(("spec", {"why": "TLC: invariant %s violated in %s/%s" % (r["violated"], module, cfg),
                                    "tlc_output": r["out"][-6000:]}))


# --------------------------------------------------------------------------- the checks
from checks import CHECKS  # noqa: E402  (scripts/checks.py: one function per property)


def setup():
    t0 = time.time()
    log("setup: building harness (release)")
    build_harness()
    log("setup: parsing specs with SANY")
    for f in sorted(os.listdir(SPEC)):
        if f.endswith(".tla"):
            if "EXTENDS Integers, FiniteSets, Apalache" in open(os.path.join(SPEC, f)).read():
                # typed module for Apalache (its standard module is not on SANY's path): type-checked by Apalache itself
                wd = os.path.join(WORK, "apalache_tc_%d" % os.getpid())
                os.makedirs(wd, exist_ok=True)
                shutil.copy(os.path.join(SPEC, f), wd)
                rc, out, _ = sh(["apalache-mc", "typecheck", f], cwd=wd, check=False, timeout=600)
                shutil.rmtree(wd, ignore_errors=True)
                if "EXITCODE: OK" not in out:
                    raise ToolError("Apalache rejected %s:\n%s" % (f, out[-3000:]))
                continue
            rc, out, _ = sh(["tla-sany", f], cwd=SPEC, check=False, timeout=300)
            if rc != 0 or "Semantic errors" in out or "*** Errors" in out or "Parse Error" in out:
                raise ToolError("SANY rejected %s:\n%s" % (f, out[-3000:]))
    export_tables()
    log("setup: negative controls for trace validation")
    selftest_trace("signet", "Trace_SigNet")
    selftest_trace("proto", "Trace_Proto", kind_of_event="TLDecrypt", flip=("Some", "None"))
    log("setup: done in %.0fs" % (time.time() - t0))
    return 0


def main():
    args = sys.argv[1:]
    os.makedirs(WORK, exist_ok=True)
    try:
        if "--setup" in args:
            return setup()
        prop = args[0]
        tier = os.environ.get("VERIF_TIER", "quick")
        if "--tier" in args:
            tier = args[args.index("--tier") + 1]
        if "--replay" in args:
            path = args[args.index("--replay") + 1]
            return replay_file(prop, path)
        if prop not in CHECKS:
            log("no check for " + prop)
            return 2
        os.environ["VERIF_TIER_NOW"] = tier
        run = Run(prop, tier)
        return CHECKS[prop](run, sys.modules[__name__])
    except ToolError as e:
        log("TOOL-ERROR: " + str(e))
        return 2


def replay_file(prop, path):
    with open(path) as f:
        rec = json.load(f)
    r = rec["record"]
    if rec["kind"] != "replay":
        log(json.dumps(r, indent=1)[:4000])
        return 1
    build_harness()
    tables, _ = export_tables()
    if r.get("build") == "checked":
        build_harness("checked")
    s = replay([r["vector"]], "replay_" + prop, tables, groups=r["group"], profiles=str(r["atom_len"]), build=r.get("build", "release"), alphabet=r.get("alphabet"), also_checked=False)
    log(json.dumps(s["failures"], indent=1))
    if s["failed"]:
        log("VIOLATION property=%s replay=%s" % (prop, path))
        return 1
    log("vector passes on the current tree")
    return 0


if __name__ == "__main__":
    sys.path.insert(0, os.path.dirname(os.path.abspath(__file__)))
    sys.exit(main())
