#!/usr/bin/env python3
"""Prints the per-property table of DESIGN.md section 4 from evidence/*.json (what the last runs measured)."""
import json, os
ROOT = os.path.dirname(os.path.dirname(os.path.abspath(__file__)))
print("| id | tier | TLC distinct states | vectors → executions (+derived) | traces accepted by TLC (events) | other stages | wall |")
print("|---|---|---|---|---|---|---|")
for i in range(1, 21):
    p = "C%02d" % i
    e = json.load(open(os.path.join(ROOT, "evidence", p + ".json")))
    c = e["coverage"]
    other = sorted({s["stage"] for s in c.get("stages", []) if s["stage"] not in ("tlc", "replay", "trace")})
    kf = c.get("known_findings_hit") or []
    print("| %s | %s | %s | %s → %s (+%s) | %s (%s) | %s%s | %ss |" % (
        p, e["tier"], f'{c["states"]:,}'.replace(",", " "), f'{c["vectors_from_tlc"]:,}'.replace(",", " "),
        f'{c["vector_executions_on_impl"]:,}'.replace(",", " "), f'{c["derived_executions_on_impl"]:,}'.replace(",", " "),
        c["recorded_traces_accepted_by_tlc"], f'{c["recorded_trace_events"]:,}'.replace(",", " "),
        ", ".join(other) or "–", ("; known: " + ", ".join(kf)) if kf else "", round(e["wall_s"])))
