#!/usr/bin/env python3
"""Regenerates MANIFEST.json from the table below (keeps it schema-valid at all times)."""
import json, os, subprocess
ROOT = os.path.dirname(os.path.dirname(os.path.abspath(__file__)))
props = [json.loads(l) for l in open(os.path.join(ROOT, "properties.jsonl"))]

MC = "model_checking"
CLAIMS = {
 "C01": dict(design="4/C01", text="TLC exhausts the SigNet model (every key x scheme x message incl. empty and pk-prefixed) with invariant Complete; every Sign and honest Verify transition is replayed on the real library for both group assignments and all message-length profiles, with determinism, reference byte equality and encode/decode through all codecs; random walks of the real API are validated by TLC against Trace_SigNet. Right level: the property is a for-all over a small algebra that the model enumerates and the replay executes.",
             note="symbolic (generic-group/random-oracle) abstraction of the curve; bounded key/message alphabets in TLC, message lengths by profile; evaluator primitives from bls12_381_plus",
             tech="TLA+ symbolic-algebra model checked by TLC; one replayed implementation test per model transition; TLC trace validation of recorded runs"),
 "C02": dict(design="4/C02", text="TLC checks Exact (verifier accepts <=> element is the one ideal signature and pk is not the identity) over every (signature x adversary derivation x public-key recipe x message) tuple of the model, including related-but-valid tuples; every such Verify transition is executed on the real verifier and on an independent CoreVerify, all three verdicts must agree; recorded random walks are validated by TLC.",
             note="symbolic abstraction sound up to Schwartz-Zippel 2^-250; tamper depth and alphabets bounded; bit-level message perturbation expanded in the harness for honest tuples",
             tech="TLA+ symbolic-algebra model checked by TLC; replay of every Verify transition vs real verifier and independent CoreVerify; TLC trace validation"),
 "C06": dict(design="4/C06", text="TLC checks AggExact/AggRefusal over every signer list (2..AggN), scheme, and single perturbation of the pair list (alter/drop/add/swap/permute/identity key) and every scheme list for refusal; every transition is replayed on AggregateSignature and compared with an independent AggregateVerify; random walks with lists up to 5 validated by TLC.",
             note="list length bounded by AggN in TLC (3), larger lists only in recorded traces (<=5 now); symbolic abstraction",
             tech="TLA+ model checked by TLC; replay of every Aggregate/AggVerify transition; TLC trace validation"),
 "C07": dict(design="4/C07", text="TLC checks MultiExact over signer lists, every key list (with duplicates) and message; Accumulate refusal over every scheme list; transitions replayed on MultiSignature/MultiPublicKey with plain-sum and reference checks; random walks validated by TLC.",
             note="n bounded by AggN (3 quick / 4 thorough) in TLC; symbolic abstraction",
             tech="TLA+ model checked by TLC; replay of every Accumulate/MultiVerify transition; TLC trace validation"),
 "C09": dict(design="4/C09", text="TLC checks Exact/Complete/Separated for PopProve/PopVerify over all ordered key-recipe pairs and proof perturbations, plus signature-as-PoP and PoP-as-signature confusion; every transition replayed on the real library and the independent evaluator; random walks validated by TLC.",
             note="key alphabet bounded; symbolic abstraction",
             tech="TLA+ model checked by TLC; replay of every PopProve/PopVerify transition; TLC trace validation"),
 "C08": dict(design="4/C08", text="TLC checks Recombine / ErrorClasses / ParamRange / PartialExact over every (t,n) with n<=MaxN, every sequence without repetition of every length handed to each of the three combiners, and one adversarial insertion (duplicate, zero id, rewritten id, corrupt payload, other scheme) at every position; Lagrange is evaluated over exact rationals with the polynomial coefficients as atoms. Every transition is replayed on real seeded splits (key, public key, signature byte-for-byte against the whole-key value) and re-interpolated by the evaluator; (t,n) up to 255 from the ideal layer.",
             note="exhaustive only for n<=4 (quick) / n<=6 (thorough); larger (t,n) by shape classes from the provenance layer because 32-bit rationals overflow; symbolic abstraction",
             tech="TLA+ model with symbolic Lagrange interpolation checked by TLC; replay of every Split/Combine/Partial* transition on the real library"),
 "C10": dict(design="4/C10", text="TLC checks Completeness / Bound / TimeBound / NoIdentity over every scheme, challenge kind, single-component perturbation (incl. a forged identity response), timestamp class and delay class relative to the timeout, with the clock as a model variable; every transition is replayed with the virtual-clock hook so the boundaries tau-1, tau, tau+1 are hit exactly; verdicts also compared with an independent verifier and challenge derivation.",
             note="virtual clock hook replaces SystemTime::now in two functions under --cfg blsful_verif; Hy and the curve are symbolic; MessageAugmentation incompleteness is a recorded finding (D6)",
             tech="TLA+ model (sessions + clock) checked by TLC; replay of every Pok/PokTs transition through a clock hook"),
 "C11": dict(design="4/C11", text="TLC checks RoundTrip / TamperRejected / WrongKey / NoIdentity over length classes x schemes x keys x adversary moves on (U, V regions, W, label, joint identity, re-sealed header); every transition replayed on real ciphertexts with V-region moves expanded to every bit and every truncation length, and compared exactly with an independent opener.",
             note="XOF mask opaque per point; length classes not all lengths; wrong-key opening of messages of length <=1 returning the message is a recorded finding (D11)",
             tech="TLA+ model checked by TLC; replay of every Seal/IsValid/Decrypt transition with bit-level expansion; independent reference opener"),
 "C12": dict(design="4/C12", text="TLC checks ShareExact / ShareNoIdentity / ThresholdOpen with degree-2 symbolic coefficients f(i)*r over all (t,n)<=MaxN, all (share, key share, ciphertext) combinations incl. identity substitutions, all three schemes, every share sequence by both routes; replayed on real splits and compared with reference interpolation + open.",
             note="(t,n) bounded (3 quick / 4 thorough); symbolic abstraction; D11 applies to sub-threshold opening of tiny messages",
             tech="TLA+ model checked by TLC; replay of every ShareVerify/DecryptShares transition"),
 "C13": dict(design="4/C13", text="TLC checks OpensExactly / OnlyRightSig / TamperNothing / RelabelNothing / OpensIff / NoIdentity over identifiers x schemes x keys x length classes x adversary moves on (U, V, W regions, label, K=1 re-keying) x offered signatures (whole-key, recombined from cnt of n shares, wrong id/key/scheme/label, identity, negated); replayed with every bit of V and of the touched W region and every truncation length; exact agreement with an independent opener (FO re-check).",
             note="r = Hr(alpha, SHA256(M)) modelled as an atom; length classes; symbolic abstraction",
             tech="TLA+ model checked by TLC; replay of every TLSeal/TLDecrypt transition with bit-level expansion; independent reference opener"),
 "C14": dict(design="4/C14", text="TLC checks Homomorphic / ProofExact / VerifyDecryptExact / SharesExact: the proof equations are polynomial identities in the atoms (b, rho, ch) with Fiat-Shamir as a random oracle table; every single-component perturbation {add, negate, swap, zero} of (c1, c2, message_proof, blinder_proof, challenge) and verifier key; sums of <=MaxSum ciphertexts; t-of-n decryption. Replayed on the real library with all six addition forms, an independent merlin transcript verifier, and reference-made proofs.",
             note="plaintexts {1, r-1, 2}; sums <=3 (quick) / 4 (thorough); merlin used as a primitive with labels from the spec",
             tech="TLA+ model checked by TLC; replay of every ElGamal transition; independent transcript verifier"),
 "C15": dict(design="4/C15", text="The Codec model enumerates 28 types x 3 codecs x variants x value classes; RoundTrip is a TLC invariant of the decoder micro-steps, and every such transition is replayed on the real library through all four container conversions, owned and borrowed encoders, determinism and the encoded length predicted by spec/Layout.tla; random values of every type are round-tripped and the class-deduplicated log validated by TLC.",
             note="field layout in the spec is the documented format; value classes, not all values",
             tech="TLA+ Codec/Layout model checked by TLC; replay of every (type, codec, variant, class) transition; TLC validation of a class-deduplicated round-trip trace"),
 "C16": dict(design="4/C16", text="TLC checks OnlyValid / TruncRejected / ExactLength / NoZeroSecret on the decoder model for every field-level mutation class of every type and codec; each transition is replayed with byte strings constructed by an independent backend (off-subgroup, valid+torsion, no-point, non-canonical, flag errors), decoded values are fed to the consumers where the lazily validated share containers must fail; a fuzz-style trace of random / mutated inputs is judged by an independent point classifier and validated by TLC per (type, codec, class, outcome).",
             note="serde accepts the zero scalar and byte imports reduce values >= r (documented scope notes, D10); mutation classes, not all byte strings; fuzz volume bounded",
             tech="TLA+ Codec model checked by TLC; replay of every mutation transition with independently constructed invalid encodings; TLC validation of a class-deduplicated decoder trace"),
 "C17": dict(design="4/C17", text="The decoder / consumer model has no Abort outcome (NoAbort, ZeroTestExact over all 256 byte-OR values); every Codec transition (all mutations, every truncation length, every consumer), the crafted-length-prefix / short-payload / timestamp abort sites of the protocol modules, and a fuzz trace are executed under catch_unwind on the plain release build and on a build with overflow checks and debug assertions; TLC validates the trace.",
             note="non-termination would surface as a timeout (exit 2); dependency panics are observed not predicted; volume of random inputs bounded",
             tech="TLA+ abort-site model checked by TLC; replay on release and checked builds under catch_unwind; TLC validation of decoder traces"),
 "C03": dict(design="4/C03", text="The SigNet model emits, for every KeyGen / Sign / PopProve / Aggregate transition, the operation described in the draft's own terms (tag names, framing rule and KeyGen parameters come from spec/Tags.tla); the replay compares the library's bytes with an independent evaluator (hand-written HKDF over HMAC-SHA-256, hash-to-curve and arithmetic from the pure-Rust backend), has the reference verifier accept library signatures and the library accept reference-made signatures, and TLC validates the tag constants the library exposes against the IETF ciphersuite IDs.",
             note="no external test-vector file (no network): the evaluator's primitives are anchored by their own crates' RFC 9380 / FIPS vectors; model checking contributes structure (which tag, which framing), the deciding comparison is byte equality",
             tech="TLA+ model supplies terms and tables; TLC-generated vectors replayed against an independent evaluator; TLC validation of the constants trace"),
 "C04": dict(design="4/C04", text="Identity / zero guards are explicit conjuncts of every verify / decrypt / seal action in SigNet, Pok, SignCrypt, TimeLock, ElGamal, Threshold and Codec; the adversary substitutes the identity for each operand in turn and jointly (where the pairing equation becomes trivially true), zero for challenges and proof scalars, and the zero key / share for signers; TLC checks the NoIdentity* invariants on the whole models and every such transition is replayed on the real library.",
             note="outcomes are judged, not the presence of a particular guard; sign_crypt returns no Result and cannot refuse; symbolic abstraction",
             tech="TLA+ models with identity/zero substitution checked by TLC; replay of every such transition"),
 "C05": dict(design="4/C05", text="Tags.Distinct and Tags.IetfConform are checked by TLC; every transition of SigNet, Pok, SignCrypt and TimeLock in which an artefact made under one scheme / purpose is presented under another is replayed on the real library (all ordered scheme pairs, PoP vs signature over the key bytes); the exposed tag constants are validated by TLC for equality with the table and pairwise distinctness; the Bind rule of the SigNet traces rejects collapsed tags.",
             note="private salts (PoK, signcryption, time-lock, ElGamal) are checked through behaviour against the evaluator (C18), not read from the library; the time-lock scheme label is not authenticated by the construction (design fact, DESIGN.md)",
             tech="TLA+ models checked by TLC (constants table + cross-scheme presentation); replay; TLC validation of the constants trace"),
 "C18": dict(design="4/C18", text="(a) A golden corpus recorded once from the pinned release (every type x group x variant x value class in three encodings; signatures, ciphertexts, proofs, share sets, aggregates with their consumers' results; deterministic operations) is replayed into the current tree and TLC validates Consume_current(Produce_pinned(x)) = Consume_pinned(x) per class; (b) every honest seal / prove transition of SignCrypt, TimeLock, ElGamal and Pok is executed with the independent implementation opening what the library seals and the library opening what the independent implementation seals.",
             note="corpus pinned to 4bdca94, entries touching repaired defects excluded (golden/README.md); independent implementation built from spec tables + primitives",
             tech="golden-corpus trace validated by TLC (Trace_Interop); TLC-generated vectors replayed in both directions against an independent implementation"),
 "C19": dict(design="4/C19", text="Both feature configurations are built from the current tree; every deterministic output (encodings of all types, key derivation incl. facade and seeded generators, signatures, PoPs, aggregates of up to 17 signers with verdicts, share recombination, challenges, generators, hash outputs, pairing bytes, wide reduction) is hashed on both nodes and TLC validates equal-call => equal-output; randomized artefacts of each build are consumed by the other with the recorded result; model vectors replayed on the pure-Rust build.",
             note="both builds run on this machine; value classes and seeds bounded",
             tech="two-node Interop trace (blst / rust builds) validated by TLC; cross-consumption of randomized artefacts; replay on the second backend"),
 "C20": dict(design="4/C20", text="TLC exhausts all interleavings of 2 processes x 2 threads of the Rng model with per-call fresh-entropy generators (NoReuse, FreshGenerators) and refutes six faulty seeding disciplines (clock-seeded, shared static, per-thread counters, fork-inherited, cloned-never-advanced, input-derived); the inductive form of NoReuse (spec/RngInd.tla) is discharged by Apalache for an unbounded number of calls, draws and steps; every randomized entry point is called N times with identical arguments on T threads in P simultaneously started processes, logging observables injective in the ephemerals plus the fingerprint of every generator (hook); TLC validates the log as Draw actions enabled only for never-seen values; a volume run of 2^19 (quick) / 2^22 (thorough) generator fingerprints merged across processes must be all distinct.",
             note="OS entropy modelled as an unbounded pool of distinct seeds; N, T, P bounded (48 x 4 x 2 quick; 512 x 16 x 4 thorough); 96-bit hash prefixes stand for the observables",
             tech="TLA+ interleaving model checked by TLC with refuted faulty variants; inductive invariant discharged by Apalache; TLC trace validation of multi-thread / multi-process recordings through a generator hook"),
}

def main():
    commits = []
    hooks_file = os.path.join(ROOT, "hooks_commits.txt")
    if os.path.exists(hooks_file):
        commits = [l.strip() for l in open(hooks_file) if l.strip()]
    checks = []
    for p in props:
        pid = p["id"]
        if pid not in CLAIMS:
            continue
        c = CLAIMS[pid]
        checks.append({
            "property_id": pid,
            "quick_cmd": "python3 scripts/vcheck.py %s --tier quick" % pid,
            "thorough_cmd": "python3 scripts/vcheck.py %s --tier thorough" % pid,
            "evidence_file": "/verif/evidence/%s.json" % pid,
            "replay_cmd_template": "python3 scripts/vcheck.py %s --replay {path}" % pid,
            "engine": "tla-model+replay",
            "level_claimed": {"category": c.get("level", MC), "text": c["text"], "design_ref": "DESIGN.md " + c["design"]},
            "level_note": c["note"],
            "technique": c["tech"],
        })
    na = [{"property_id": p["id"], "reason": NA.get(p["id"], "check not built yet (build round in progress)")}
          for p in props if p["id"] not in CLAIMS]
    m = {"version": 1,
         "setup_cmd": "python3 scripts/vcheck.py --setup",
         "hooks": {"guard": "--cfg blsful_verif",
                   "enable": "harness/.cargo/config.toml passes --cfg blsful_verif in rustflags; the harness depends on /repo by path, so the library is rebuilt from the current working tree with the hooks on",
                   "baseline_off_cmd": "cd /repo && cargo test --workspace --no-fail-fast --offline",
                   "source_commits": commits, "add_only": True},
         "engines": [{"name": "tla-model+replay", "path": "/verif/spec + /verif/harness + /verif/scripts/vcheck.py",
                      "serves_properties": [c["property_id"] for c in checks],
                      "kind_free_text": "explicit TLA+ specification checked by TLC; TLC-generated vectors replayed on the real library with an independent evaluator; recorded traces of the real library validated by TLC; one inductive invariant (Rng) discharged by Apalache"}],
         "checks": checks,
         "notes": "See DESIGN.md. Exit codes: 0 held, 1 VIOLATION (+replay file), 2 tool error/timeout/vacuity. Known findings (known_findings.json): D6 under C10, D11 under C11 and C12 - printed as KNOWN-FINDING lines, exit 0. 220 confirmed seeded changes with the catch matrix in seeded/RESULTS.md.",
         "not_applicable": na}
    json.dump(m, open(os.path.join(ROOT, "MANIFEST.json"), "w"), indent=1)
    print("manifest: %d checks, %d not claimed" % (len(checks), len(na)))

NA = {}
if __name__ == "__main__":
    main()
