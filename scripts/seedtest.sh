#!/bin/bash
# usage: seedtest.sh <patch.diff> <prop> [<prop> ...]   applies the patch to /repo, runs quick checks, reverts
patch=$1; shift
cd /repo && git apply "$patch" || { echo "APPLY-FAILED $patch"; exit 2; }
cd /verif
for p in "$@"; do
  out=$(python3 scripts/vcheck.py $p --tier ${TIER:-quick} 2>&1); rc=$?
  echo "== $patch on $p: rc=$rc $(echo "$out" | grep -c '^VIOLATION') violations; $(echo "$out" | grep -E '^(VIOLATION|TOOL-ERROR|OK)' | head -2 | cut -c1-260)"
done
git -C /repo checkout -- . ; git -C /repo status --short | head -3
