#!/usr/bin/env python3
"""Confirms sub-agent-written breaking changes before they are kept under seeded/<id>/:
in a scratch worktree of /repo HEAD (outside /repo and /verif): the patch applies, the 37 existing
tests pass with it, the demonstration fails with it and passes without it.
usage: seedconfirm.py <incoming-dir> <number-offset>"""
import glob, json, os, shutil, subprocess, sys
ROOT = os.path.dirname(os.path.dirname(os.path.abspath(__file__)))
WT = os.environ.get("SEED_WT", "/var/tmp/blsful-verif-seedwt")
inc, off = sys.argv[1], int(sys.argv[2])
env = dict(os.environ, CARGO_TARGET_DIR=WT + "/target", CARGO_NET_OFFLINE="true")
def sh(cmd, timeout=3000):
    p = subprocess.run(cmd, cwd=WT, env=env, stdout=subprocess.PIPE, stderr=subprocess.STDOUT, text=True, timeout=timeout)
    return p.returncode, p.stdout
if not os.path.isdir(WT):
    subprocess.run(["git", "-C", "/repo", "worktree", "add", "--detach", WT, "HEAD"], check=True)
sh(["git", "checkout", "--detach", subprocess.check_output(["git", "-C", "/repo", "rev-parse", "HEAD"], text=True).strip()])
for prop in sorted(os.listdir(inc)):
    if not prop.startswith("C"):
        continue
    for pf in sorted(glob.glob(f"{inc}/{prop}/patch*.diff")):
        n = int(os.path.basename(pf)[5:-5])
        sid = f"{prop}-{n + off}"
        demo = f"{inc}/{prop}/demo{n}.rs"
        sh(["git", "checkout", "--", "."])
        for f in glob.glob(WT + "/tests/demo*.rs"):
            os.remove(f)
        r = {}
        rc, out = sh(["git", "apply", pf]); r["patch_applies"] = rc == 0
        if rc == 0:
            rc, out = sh(["cargo", "test", "--offline"]); r["existing_37_tests_pass_with_patch"] = rc == 0
            shutil.copy(demo, f"{WT}/tests/demoX.rs")
            rc, out = sh(["cargo", "test", "--offline", "--test", "demoX"]); r["demo_fails_with_patch"] = rc != 0
            sh(["git", "checkout", "--", "src"])
            rc, out = sh(["cargo", "test", "--offline", "--test", "demoX"]); r["demo_passes_without_patch"] = rc == 0
            os.remove(f"{WT}/tests/demoX.rs")
        ok = all(r.get(k) for k in ("patch_applies", "existing_37_tests_pass_with_patch", "demo_fails_with_patch", "demo_passes_without_patch"))
        print(sid, "CONFIRMED" if ok else "NOT CONFIRMED", r, flush=True)
        if ok:
            d = os.path.join(ROOT, "seeded", sid)
            os.makedirs(d, exist_ok=True)
            shutil.copy(pf, d + "/patch.diff")
            shutil.copy(demo, d + "/demo.rs")
            for extra in glob.glob(f"{inc}/{prop}/demo{n}.sh"):
                shutil.copy(extra, d + "/demo.sh")
            m = json.load(open(f"{inc}/{prop}/meta{n}.json"))
            json.dump({"property": prop, "breaks": m.get("summary"), "needs_to_manifest": m.get("needs"),
                       "author": os.environ.get("SEED_AUTHOR", "fresh sub-agent given only the property text and a scratch worktree"),
                       "author_ran": m.get("ran"), "rebased_on_fix_commits": False,
                       "confirmed_by_me": dict(r, tree="/repo HEAD in scratch worktree " + WT,
                                               commands=["git apply patch.diff", "cargo test --offline", "cp demo.rs tests/demoX.rs && cargo test --offline --test demoX", "git checkout -- src && cargo test --offline --test demoX"])},
                      open(d + "/meta.json", "w"), indent=1)
sh(["git", "checkout", "--", "."])
