#!/usr/bin/env python3
"""Measures which checks catch which seeded changes (seeded/<id>/patch.diff).

The measurement runs in scratch copies so that the registered commands (which use /verif/harness and
/repo) are not disturbed: a scratch worktree of /repo HEAD receives the patch, and a scratch copy of
the harness depends on that worktree.  Results: seeded/RESULTS.md, seeded/results.json.
usage: seedmatrix.py [seed-id ...]        (default: all)"""
import glob, json, os, re, shutil, subprocess, sys, time
ROOT = os.path.dirname(os.path.dirname(os.path.abspath(__file__)))
TAG = os.environ.get("SEEDMATRIX_TAG", "")          # a second instance may run beside the first with its own scratch space
WT = "/var/tmp/blsful-verif-seedwt" + TAG
HM = "/var/tmp/blsful-verif-hmut" + TAG
SC = "/var/tmp/blsful-verif-scratch" + TAG

def sh(cmd, cwd=None, env=None, timeout=7200):
    p = subprocess.run(cmd, cwd=cwd, env=env, stdout=subprocess.PIPE, stderr=subprocess.STDOUT, text=True, timeout=timeout)
    return p.returncode, p.stdout

def setup():
    if not os.path.isdir(WT):
        rc, out = sh(["git", "-C", "/repo", "worktree", "add", "--detach", WT, "HEAD"])
        assert rc == 0, out
    sh(["git", "checkout", "--detach", subprocess.check_output(["git", "-C", "/repo", "rev-parse", "HEAD"], text=True).strip()], cwd=WT)
    os.makedirs(HM, exist_ok=True)
    for x in ("src", ".cargo"):
        shutil.rmtree(os.path.join(HM, x), ignore_errors=True)
        shutil.copytree(os.path.join(ROOT, "harness", x), os.path.join(HM, x))
    shutil.copy(os.path.join(ROOT, "harness", "Cargo.lock"), HM)
    s = open(os.path.join(ROOT, "harness", "Cargo.toml")).read().replace('path = "/repo"', 'path = "%s"' % WT)
    open(os.path.join(HM, "Cargo.toml"), "w").write(s)
    for x in ("work", "evidence", "replays"):
        os.makedirs(os.path.join(SC, x), exist_ok=True)
    # a snapshot of the specification too, so that edits made while the measurement runs do not mix versions
    shutil.rmtree(os.path.join(SC, "spec"), ignore_errors=True)
    shutil.copytree(os.path.join(ROOT, "spec"), os.path.join(SC, "spec"))

def run_check(prop, tier="quick"):
    env = dict(os.environ, VERIF_HARNESS=HM, VERIF_WORK=SC + "/work", VERIF_EVID=SC + "/evidence", VERIF_REPLAYS=SC + "/replays", VERIF_SPEC=SC + "/spec")
    t0 = time.time()
    rc, out = sh(["python3", os.path.join(ROOT, "scripts", "vcheck.py"), prop, "--tier", tier], cwd=ROOT, env=env)
    v = [l for l in out.splitlines() if l.startswith("VIOLATION")]
    why = v[0].split("#", 1)[1].strip()[:160] if v and "#" in v[0] else ""
    tool = [l for l in out.splitlines() if l.startswith("TOOL-ERROR")]
    return {"rc": rc, "violations": len(v), "first": why, "tool_error": tool[0][:200] if tool else "", "wall_s": round(time.time() - t0)}

ALL = ["C%02d" % i for i in range(1, 21)]
EXTRA = {"C04-2": ["C10"], "C04-3": ["C13"], "C04-1": ["C06"], "C05-1": ["C09", "C03"], "C05-2": ["C13"], "C05-3": ["C10"], "C02-1": ["C03", "C05"], "C02-3": ["C05"],
         "C16-2": ["C04"], "C15-11": ["C16"], "C09-11": ["C16"], "C01-1": ["C15", "C17"], "C15-1": ["C01"], "C17-2": ["C10"], "C17-1": ["C11"]}

def main():
    setup()
    rp = os.path.join(ROOT, "seeded", "results%s.json" % TAG)
    results = json.load(open(rp)) if os.path.exists(rp) else {}
    ids = sys.argv[1:] or sorted(os.path.basename(d) for d in glob.glob(os.path.join(ROOT, "seeded", "C*-*")))
    for sid in ids:
        d = os.path.join(ROOT, "seeded", sid)
        prop = sid.split("-")[0]
        sh(["git", "checkout", "--", "."], cwd=WT)
        rc, out = sh(["git", "apply", os.path.join(d, "patch.diff")], cwd=WT)
        if rc != 0:
            results[sid] = {"error": "patch does not apply: " + out[-300:]}
            continue
        r = {"own": run_check(prop)}
        for p in EXTRA.get(sid, []):
            r[p] = run_check(p)
        if not os.environ.get("OWN_ONLY") and r["own"]["rc"] == 0 and not any(v["rc"] == 1 for k, v in r.items() if k != "own"):
            # missed by its own check: does any other check see it?
            for p in ALL:
                if p != prop and p not in r:
                    r[p] = run_check(p)
                    if r[p]["rc"] == 1:
                        break
        results[sid] = r
        sh(["git", "checkout", "--", "."], cwd=WT)
        json.dump(results, open(rp, "w"), indent=1)
        print(sid, {k: (v["rc"], v["violations"]) for k, v in r.items()}, flush=True)
    # report
    lines = ["# Seeded changes vs checks (quick tier)", "",
             "Each change breaks its property while compiling and passing the 37 existing tests (confirmed, see each `meta.json`).",
             "`own` = the quick check of the property the change was written against; other columns = other checks run on it.", "",
             "| seed | what it needs to manifest | own check | caught by | first report |", "|---|---|---|---|---|"]
    caught = 0
    for sid in sorted(results):
        r = results[sid]
        if "error" in r:
            lines.append("| %s | – | %s | | |" % (sid, r["error"][:60]))
            continue
        m = json.load(open(os.path.join(ROOT, "seeded", sid, "meta.json")))
        by = [(k if k != "own" else sid.split("-")[0]) for k, v in r.items() if v["rc"] == 1]
        caught += bool(by)
        first = next((v["first"] for v in r.values() if v["rc"] == 1), "")
        own = {0: "exit 0 (missed)", 1: "VIOLATION", 2: "tool error"}.get(r["own"]["rc"], str(r["own"]["rc"]))
        lines.append("| %s | %s | %s | %s | %s |" % (sid, (m.get("needs_to_manifest") or "")[:140].replace("|", "/").replace("\n", " "), own, ", ".join(by) or "**none**", first.replace("|", "/")))
    lines += ["", "%d of %d seeded changes are reported by at least one check." % (caught, len(results))]
    if not TAG:
        open(os.path.join(ROOT, "seeded", "RESULTS.md"), "w").write("\n".join(lines) + "\n")
    print("caught", caught, "of", len(results))

if __name__ == "__main__":
    main()
