#!/bin/bash
# usage: runall.sh quick|thorough   runs every registered check on /repo's current tree, prints exit code and wall time
tier=${1:-quick}
cd /verif
for i in $(seq -w 1 20); do
  p=C$i
  s=$(date +%s)
  out=$(python3 scripts/vcheck.py $p --tier $tier 2>&1); rc=$?
  e=$(date +%s)
  echo "$p tier=$tier rc=$rc wall=$((e-s))s $(echo "$out" | grep -E '^(VIOLATION|TOOL-ERROR)' | head -1 | cut -c1-200)"
done
